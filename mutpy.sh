#!/bin/bash
# mutpy.sh <name> <file> <old> <new> <check ids...> — one textual replacement in a scratch copy of /repo, then run checks.
NAME="$1"; FILE="$2"; OLD="$3"; NEW="$4"; shift 4
D=/var/tmp/verif-mut/$NAME
rm -rf "$D"; mkdir -p "$D"
rsync -a --exclude .git /repo/ "$D/repo/"
python3 - "$D/repo/$FILE" "$OLD" "$NEW" <<'PY' || { echo "[$NAME] REPLACEMENT FAILED"; rm -rf "$D"; exit 3; }
import sys
p,old,new=sys.argv[1:4]
s=open(p).read()
if old not in s: sys.exit(1)
open(p,'w').write(s.replace(old,new,1))
PY
export GOFLAGS=-mod=mod GOPROXY=off GOSUMDB=off GOTOOLCHAIN=local
t=$(cd "$D/repo" && go build ./... 2>&1 | head -3; go test -vet=off -count=1 ./... 2>&1 | grep -v "^ok\|no test files" | head -3)
[ -n "$t" ] && echo "[$NAME] TESTS: $t"
for id in "$@"; do
  out=$(VERIF_REPO="$D/repo" VERIF_OUTDIR="$D/out" /verif/run.sh $id ${TIER:-quick} 2>&1); rc=$?
  echo "[$NAME] $id rc=$rc $(echo "$out" | grep -a "^$id " | sed 's/.*: //') $(echo "$out" | grep -a "signature:" | head -3 | tr -s ' ' | tr '\n' ';')"
done
rm -rf "$D"
