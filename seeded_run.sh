#!/bin/bash
# seeded_run.sh [seed-id ...] — re-run the kept seeded changes (/verif/seeded/<id>/patch.diff) against the property's own
# check: the patch is applied to a scratch copy of /repo HEAD (never to /repo itself), the check runs with VERIF_REPO.
cd "$(dirname "$0")"
export GOFLAGS=-mod=mod GOPROXY=off GOSUMDB=off GOTOOLCHAIN=local
ids="$@"; [ -z "$ids" ] && ids=$(ls seeded)
for sid in $ids; do
  prop=$(python3 -c "import json;print(json.load(open('seeded/$sid/meta.json'))['property_broken'])")
  D=/var/tmp/verif-mut/rerun-$sid; rm -rf "$D"; mkdir -p "$D/repo"
  git -C /repo archive HEAD | tar -x -C "$D/repo"
  (cd "$D/repo" && git apply --whitespace=nowarn "/verif/seeded/$sid/patch.diff" 2>/dev/null || patch -p1 -s < "/verif/seeded/$sid/patch.diff") || { echo "$sid: PATCH DOES NOT APPLY"; rm -rf "$D"; continue; }
  out=$(VERIF_REPO="$D/repo" VERIF_OUTDIR="$D/out" ./run.sh $prop ${TIER:-quick} 2>&1); rc=$?
  echo "$sid → $prop rc=$rc $(echo "$out" | grep -a "signature:" | sed 's/.*signature: //' | head -2 | tr '\n' ';')"
  rm -rf "$D"
done
