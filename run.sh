#!/bin/bash
# run.sh <ID> <quick|thorough> [--replay file]
# Regenerates the clock overlay from the CURRENT /repo working tree, builds the monitor runner
# against it, runs the property's monitor, writes evidence/<ID>.json, removes its scratch dir.
# Exit: 0 held on everything observed; 1 + "VIOLATION property=<id> replay=<path>"; 2 inconclusive.
set -u
ID="${1:?usage: run.sh <ID> <quick|thorough> [--replay file]}"
TIER="${2:-quick}"
REPLAY=""
if [ "$TIER" = "--replay" ]; then REPLAY="${3:?replay file}"; TIER="quick"; fi
if [ "${3:-}" = "--replay" ]; then REPLAY="${4:?replay file}"; fi

VERIF="$(cd "$(dirname "$0")" && pwd)"
REPO="${VERIF_REPO:-/repo}"
export GOFLAGS=-mod=mod GOPROXY=off GOSUMDB=off GOTOOLCHAIN=local CGO_ENABLED=${CGO_ENABLED:-1}
SCRATCH_ROOT="${VERIF_SCRATCH:-/var/tmp/verif-scratch}"
SCRATCH="$SCRATCH_ROOT/$ID.$$"
mkdir -p "$SCRATCH" "$VERIF/evidence" "$VERIF/replays" "$VERIF/bin"
cleanup() { rm -rf "$SCRATCH"; }
trap cleanup EXIT

H="$VERIF/harness"
# module file with the replace pointing at the tree under check
sed "s#=> /repo#=> $REPO#" "$H/go.mod" > "$SCRATCH/go.mod"
if [ -f "$H/go.sum" ]; then cp "$H/go.sum" "$SCRATCH/go.sum"; else cp "$REPO/go.sum" "$SCRATCH/go.sum"; fi

if [ ! -x "$VERIF/bin/instrument" ]; then
  (cd "$H" && go build -modfile="$SCRATCH/go.mod" -o "$VERIF/bin/instrument" ./cmd/instrument) || { echo "INCONCLUSIVE: cannot build instrument"; exit 2; }
fi
"$VERIF/bin/instrument" -repo "$REPO" -out "$SCRATCH/overlay" || { echo "INCONCLUSIVE: instrument failed"; exit 2; }

RACE=""
case "$ID" in C20) RACE="-race";; esac
if ! (cd "$H" && go build $RACE -tags verif -modfile="$SCRATCH/go.mod" -overlay "$SCRATCH/overlay/overlay.json" -o "$SCRATCH/abmon" ./cmd/abmon) > "$SCRATCH/build.log" 2>&1; then
  cat "$SCRATCH/build.log"
  echo "INCONCLUSIVE: the tree under check does not build with the monitor harness"
  exit 2
fi

ARGS=(-prop "$ID" -tier "$TIER" -seed "${VERIF_SEED:-1}" -verif "$VERIF" -scratch "$SCRATCH")
if [ -n "${VERIF_OUTDIR:-}" ]; then mkdir -p "$VERIF_OUTDIR/evidence" "$VERIF_OUTDIR/replays"; ARGS+=(-outdir "$VERIF_OUTDIR"); fi
[ -n "$REPLAY" ] && ARGS+=(-replay "$REPLAY")
"$SCRATCH/abmon" "${ARGS[@]}"
exit $?
