#!/usr/bin/env python3
# mkmeta.py <seed-id> <round-letter> <as-stood: comma list of checks or -> <needs_to_manifest text>
# Turns seeded/<id>/result.json (written by seedcheck.sh) into seeded/<id>/meta.json.
import json, sys
sid, rnd, stood, needs = sys.argv[1], sys.argv[2], sys.argv[3], sys.argv[4]
r = json.load(open(f'/verif/seeded/{sid}/result.json'))
prev = f"a-{chr(ord(rnd)-1)}"
m = {
    "seed_id": sid,
    "property_broken": sid.split('-')[0],
    "author": f"independent sub-agent (round {rnd}) given only the property text, the list of ideas tried in rounds {prev}, and a scratch worktree",
    "needs_to_manifest": needs,
    "confirmed_by_me": {
        "applies_to_repo_head": r["repo_head"], "builds": r["builds"],
        "existing_suite_with_change": r["existing_suite_with_change"],
        "demo": r["demo_file"].split('/')[-1], "demo_with_change": r["demo_with_change"],
        "demo_without_change": r["demo_without_change"],
        "how": "seedcheck.sh: git archive of /repo HEAD into two scratch copies, patch applied to one; go build, full go test, demo run in both; then the listed checks run with VERIF_REPO pointing at the patched copy",
    },
    "checks_run": r["checks_run"],
    "caught_by": r["caught_by"].split(),
    "caught_as_the_checks_stood": [] if stood == '-' else stood.split(','),
    "tier": r["tier"],
}
json.dump(m, open(f'/verif/seeded/{sid}/meta.json', 'w'), indent=1)
print(sid, "caught_by", m["caught_by"], "as-stood", m["caught_as_the_checks_stood"])
