#!/bin/bash
# all.sh [tier] — run every registered check once, print one line per check
TIER="${1:-quick}"
cd "$(dirname "$0")"
for id in $(python3 -c "import json;print(' '.join(c['property_id'] for c in json.load(open('MANIFEST.json'))['checks']))" 2>/dev/null || echo C01 C02 C03 C04 C05 C06 C07 C08 C09 C10 C11 C12 C13 C14 C15 C16 C17 C18 C19 C20); do
  out=$(./run.sh $id $TIER 2>&1); rc=$?
  echo "$id rc=$rc $(echo "$out" | grep -a "^$id $TIER" )"
  echo "$out" | grep -a "signature:\|INCONCLUSIVE\|KNOWN-FINDING" | sort | uniq -c | head -12
done
