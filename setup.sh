#!/bin/bash
# Offline setup: build the instrumenter and pre-warm the Go build cache for both build flavours.
set -u
VERIF="$(cd "$(dirname "$0")" && pwd)"
export GOFLAGS=-mod=mod GOPROXY=off GOSUMDB=off GOTOOLCHAIN=local
mkdir -p "$VERIF/bin" "$VERIF/evidence" "$VERIF/replays"
rm -f "$VERIF/bin/instrument"
S=/var/tmp/verif-scratch/setup.$$
mkdir -p "$S"
trap 'rm -rf "$S"' EXIT
H="$VERIF/harness"
cp "$H/go.mod" "$S/go.mod"
if [ -f "$H/go.sum" ]; then cp "$H/go.sum" "$S/go.sum"; else cp /repo/go.sum "$S/go.sum"; fi
(cd "$H" && go build -modfile="$S/go.mod" -o "$VERIF/bin/instrument" ./cmd/instrument) || exit 1
"$VERIF/bin/instrument" -repo /repo -out "$S/overlay" || exit 1
(cd "$H" && go build -tags verif -modfile="$S/go.mod" -overlay "$S/overlay/overlay.json" -o "$S/abmon" ./cmd/abmon) || exit 1
(cd "$H" && go build -race -tags verif -modfile="$S/go.mod" -overlay "$S/overlay/overlay.json" -o "$S/abmon.race" ./cmd/abmon) || exit 1
echo "setup ok"
