package sim

import (
	"crypto/sha512"
	"encoding/base64"
	"math/rand"
	"strings"
	"time"

	"github.com/pquerna/otp/totp"
	"github.com/volatiletech/authboss/v3/verifclock"
	"golang.org/x/crypto/bcrypt"
)

// bcryptKey is the byte string bcrypt actually keys on: the cyclic repetition of password‖0x00
// truncated to 72 bytes (x/crypto: the key schedule consumes exactly 18 32-bit words of the
// NUL-terminated password, wrapping around).
func bcryptKey(pw string) string {
	k := []byte(pw)
	k = append(k, 0)
	out := make([]byte, 72)
	for i := range out {
		out[i] = k[i%len(k)]
	}
	return string(out)
}

// PwEquiv reports whether two passwords are the same credential for bcrypt.
func PwEquiv(a, b string) bool { return bcryptKey(a) == bcryptKey(b) }

// Hash4 is a cost-4 bcrypt hash (seeding only).
func Hash4(s string) string {
	h, err := bcrypt.GenerateFromPassword([]byte(s), 4)
	if err != nil {
		panic(err)
	}
	return string(h)
}

// LooksBcrypt reports whether s has the shape of a bcrypt hash.
func LooksBcrypt(s string) bool {
	return len(s) == 60 && strings.HasPrefix(s, "$2") && s[3] == '$' && s[6] == '$'
}

// BcryptOK verifies a plaintext against a stored hash with x/crypto directly.
func BcryptOK(hash, pw string) bool {
	return bcrypt.CompareHashAndPassword([]byte(hash), []byte(pw)) == nil
}

// The TOTP dependency is rewritten by the build overlay to read the virtual clock, so codes are
// generated for the virtual instant too (in the real-clock checks the virtual clock IS the real one).

// TOTPAt is the code of secret `steps` 30-second periods away from the current instant.
func TOTPAt(secret string, steps int) string {
	c, err := totp.GenerateCode(secret, verifclock.Now().Add(time.Duration(steps)*30*time.Second))
	if err != nil {
		return "000000"
	}
	return c
}

// TOTPCodes returns the codes the library's documented tolerance accepts right now: the current
// period and one period either side.
func TOTPCodes(secret string) map[string]bool {
	out := map[string]bool{}
	for d := -1; d <= 1; d++ {
		out[TOTPAt(secret, d)] = true
	}
	return out
}

// TOTPOK reports whether a submitted code is one of the currently acceptable codes of secret; the code
// is its digits, surrounding whitespace is not part of it (the otp library trims it).
func TOTPOK(secret, submitted string) bool {
	return secret != "" && TOTPCodes(secret)[strings.TrimSpace(submitted)]
}

// TOTPNow is the current code of secret.
func TOTPNow(secret string) string { return TOTPAt(secret, 0) }

// TOTPFar is a code of secret from another period (2..60 periods in the past or future) that is not
// among the currently acceptable ones.
func TOTPFar(secret string, r *rand.Rand) string {
	near := TOTPCodes(secret)
	offs := []int{-2, 2, -3, 3, -10, 10, -29, 29, -31, 31, -60, 60}
	start := r.Intn(len(offs))
	for i := range offs {
		if c := TOTPAt(secret, offs[(start+i)%len(offs)]); !near[c] {
			return c
		}
	}
	return "x"
}

// Sha512B64 is the stored form of an OTP / remember token.
func Sha512B64(s string) string {
	sum := sha512.Sum512([]byte(s))
	return base64.StdEncoding.EncodeToString(sum[:])
}

func pick(r *rand.Rand, xs ...string) string { return xs[r.Intn(len(xs))] }

// weighted picks a key of w with probability proportional to its weight (deterministic order).
func weighted(r *rand.Rand, keys []string, w map[string]int) string {
	tot := 0
	for _, k := range keys {
		tot += w[k]
	}
	if tot <= 0 {
		return ""
	}
	n := r.Intn(tot)
	for _, k := range keys {
		n -= w[k]
		if n < 0 {
			return k
		}
	}
	return keys[len(keys)-1]
}

func flipBit(b []byte, bit int) []byte {
	c := append([]byte(nil), b...)
	c[bit/8] ^= 1 << uint(bit%8)
	return c
}

func b64url(b []byte) string { return base64.URLEncoding.EncodeToString(b) }

func trunc(s string, n int) string {
	if len(s) <= n {
		return s
	}
	return s[:n] + "…"
}
