package sim

import (
	"crypto/sha512"
	"encoding/base64"
	"math/rand"
	"strings"
	"time"

	"github.com/pquerna/otp/totp"
	"golang.org/x/crypto/bcrypt"
)

// bcryptKey is the byte string bcrypt actually keys on: the cyclic repetition of password‖0x00
// truncated to 72 bytes (x/crypto: the key schedule consumes exactly 18 32-bit words of the
// NUL-terminated password, wrapping around).
func bcryptKey(pw string) string {
	k := []byte(pw)
	k = append(k, 0)
	out := make([]byte, 72)
	for i := range out {
		out[i] = k[i%len(k)]
	}
	return string(out)
}

// PwEquiv reports whether two passwords are the same credential for bcrypt.
func PwEquiv(a, b string) bool { return bcryptKey(a) == bcryptKey(b) }

// Hash4 is a cost-4 bcrypt hash (seeding only).
func Hash4(s string) string {
	h, err := bcrypt.GenerateFromPassword([]byte(s), 4)
	if err != nil {
		panic(err)
	}
	return string(h)
}

// LooksBcrypt reports whether s has the shape of a bcrypt hash.
func LooksBcrypt(s string) bool {
	return len(s) == 60 && strings.HasPrefix(s, "$2") && s[3] == '$' && s[6] == '$'
}

// BcryptOK verifies a plaintext against a stored hash with x/crypto directly.
func BcryptOK(hash, pw string) bool {
	return bcrypt.CompareHashAndPassword([]byte(hash), []byte(pw)) == nil
}

// TOTPCodes returns the codes of secret for steps -2..+2 around the real clock.
func TOTPCodes(secret string) map[string]bool {
	out := map[string]bool{}
	now := time.Now()
	for d := -2; d <= 2; d++ {
		if c, err := totp.GenerateCode(secret, now.Add(time.Duration(d)*30*time.Second)); err == nil {
			out[c] = true
		}
	}
	return out
}

// TOTPNow is the current code of secret (real clock).
func TOTPNow(secret string) string {
	c, err := totp.GenerateCode(secret, time.Now())
	if err != nil {
		return "000000"
	}
	return c
}

// TOTPFar is a code of secret ≥10 steps away from now (invalid by construction unless it
// collides with a near code, which the caller checks).
func TOTPFar(secret string) string {
	near := TOTPCodes(secret)
	for d := 20; d < 40; d++ {
		c, err := totp.GenerateCode(secret, time.Now().Add(time.Duration(d)*30*time.Second))
		if err == nil && !near[c] {
			return c
		}
	}
	return "x"
}

// Sha512B64 is the stored form of an OTP / remember token.
func Sha512B64(s string) string {
	sum := sha512.Sum512([]byte(s))
	return base64.StdEncoding.EncodeToString(sum[:])
}

func pick(r *rand.Rand, xs ...string) string { return xs[r.Intn(len(xs))] }

// weighted picks a key of w with probability proportional to its weight (deterministic order).
func weighted(r *rand.Rand, keys []string, w map[string]int) string {
	tot := 0
	for _, k := range keys {
		tot += w[k]
	}
	if tot <= 0 {
		return ""
	}
	n := r.Intn(tot)
	for _, k := range keys {
		n -= w[k]
		if n < 0 {
			return k
		}
	}
	return keys[len(keys)-1]
}

func flipBit(b []byte, bit int) []byte {
	c := append([]byte(nil), b...)
	c[bit/8] ^= 1 << uint(bit%8)
	return c
}

func b64url(b []byte) string { return base64.URLEncoding.EncodeToString(b) }

func trunc(s string, n int) string {
	if len(s) <= n {
		return s
	}
	return s[:n] + "…"
}
