package sim

import (
	"encoding/base64"
	"encoding/json"
	"net/http"
	"net/url"
	"strings"

	"verif/world"
)

func base64URLDecode(t string) ([]byte, error) { return base64.URLEncoding.DecodeString(t) }

// SessPut returns the last value a request's session writes put under key.
func SessPut(rec *world.Rec, key string) (string, bool) {
	val, ok := "", false
	for _, evs := range rec.SessWrites {
		for _, e := range evs {
			if e.Key == key && e.Kind == "put" {
				val, ok = e.Value, true
			}
		}
	}
	return val, ok
}

// SessPutAny reports whether any session write of the request put key=val.
func SessPutAny(rec *world.Rec, key, val string) bool {
	for _, evs := range rec.SessWrites {
		for _, e := range evs {
			if e.Key == key && e.Kind == "put" && e.Value == val {
				return true
			}
		}
	}
	return false
}

// RememberActive reports whether the remember middleware is installed in this configuration.
func (s *Sim) RememberActive() bool {
	return s.Cfg.Has("remember") && (!s.Cfg.UseExpire || s.Cfg.RememberBeforeExpire)
}

// IssuedCookie returns the remember cookie value newly set by the response ("" if none).
func IssuedCookie(rec *world.Rec) string {
	if rec.Header == nil {
		return ""
	}
	val := ""
	resp := http.Response{Header: rec.Header}
	for _, c := range resp.Cookies() {
		if c.Name == "rm" {
			if c.MaxAge < 0 {
				val = ""
			} else {
				val = c.Value
			}
		}
	}
	return val
}

// DeletedCookie reports whether the response ends with the rm cookie deleted.
func DeletedCookie(rec *world.Rec) bool {
	if rec.Header == nil {
		return false
	}
	del := false
	resp := http.Response{Header: rec.Header}
	for _, c := range resp.Cookies() {
		if c.Name == "rm" {
			del = c.MaxAge < 0
		}
	}
	return del
}

// PrimaryValid reports whether the step's request carried a valid primary credential (password,
// one-time password, recovery token with login-after-recovery) and for which account, judged on
// the ledger as it stands (call before Learn).
func (s *Sim) PrimaryValid(st *Step) (string, bool) {
	a := st.Act
	switch a.Kind {
	case "login":
		if ac := s.AcctByPID(a.PID); ac != nil && ac.Pw != "" && len(ac.Pw) <= 72 {
			// (a password of more than 72 bytes is one the shipped hasher must refuse to hash: an
			// account can never have one, and nothing typed is a valid credential against it)
			if (s.Cfg.CustomHasher && a.Secret == ac.Pw) || (!s.Cfg.CustomHasher && PwEquiv(a.Secret, ac.Pw)) {
				return ac.PID, true
			}
		}
	case "otp_login":
		if ac := s.AcctByPID(a.PID); ac != nil {
			if o := find(ac.OTPs, a.Secret); o != nil && o.State == Live {
				return ac.PID, true
			}
		}
	case "recover_end":
		if !s.Cfg.RecoverLogin {
			return "", false
		}
		if t := s.RecoverTokenValid(a.Secret, st.Rec); t != nil {
			return t.PID, true
		}
	}
	return "", false
}

// RecoverTokenValid returns the live, unexpired recovery token whose bytes equal the submission.
func (s *Sim) RecoverTokenValid(sub string, rec *world.Rec) *MailTok {
	raw, err := base64URLDecode(sub)
	if err != nil {
		return nil
	}
	for _, t := range s.Toks {
		if t.Kind != "recover" || t.State != Live {
			continue
		}
		traw, _ := base64URLDecode(t.Token)
		if string(traw) != string(raw) {
			continue
		}
		ttl := s.W.AB.Config.Modules.RecoverTokenDuration
		if !rec.Now.After(t.IssuedAt.Add(ttl)) {
			return t
		}
	}
	return nil
}

// TokenByBytes finds a mailed token of kind whose decoded bytes equal the submission's.
func (s *Sim) TokenByBytes(kind, sub string) *MailTok {
	raw, err := base64URLDecode(sub)
	if err != nil {
		return nil
	}
	var hit *MailTok
	for _, t := range s.Toks {
		if t.Kind != kind {
			continue
		}
		traw, _ := base64URLDecode(t.Token)
		if string(traw) == string(raw) {
			hit = t
		}
	}
	return hit
}

// Learn updates the ledger from what the step made observable.
func (s *Sim) Learn(st *Step) {
	a, rec := st.Act, st.Rec
	bs := s.Br[a.B]
	primaryPID, primaryOK := s.PrimaryValid(st)

	// --- mail
	for _, m := range rec.Mails {
		s.learnMail(m, st)
	}

	// --- confirm / recover tokens accepted
	if a.Kind == "confirm" || a.Kind == "recover_end" {
		kind := "confirm"
		if a.Kind == "recover_end" {
			kind = "recover"
		}
		if t := s.TokenByBytes(kind, a.Secret); t != nil && t.State == Live {
			for _, ch := range rec.Diff() {
				if ch.PID == t.PID && ((kind == "confirm" && ch.Field == "Confirmed" && ch.New == "true") || (kind == "recover" && ch.Field == "Password")) {
					t.State = Spent
				}
			}
		}
	}

	// --- accounts created
	for _, ch := range rec.Diff() {
		if ch.Field == "<created>" && s.AcctByPID(ch.PID) == nil {
			u := rec.After.Users[ch.PID]
			na := &Account{Idx: len(s.Accts), PID: ch.PID, Email: u.Email, Phone: "+1555020" + itoa(len(s.Accts))}
			if a.Kind == "register" {
				na.Pw = a.Secret
			}
			if u.OAuth2Provider != "" {
				na.Ident = &world.Identity{Provider: u.OAuth2Provider, UID: u.OAuth2UID, Email: u.Email}
			}
			s.Accts = append(s.Accts, na)
		}
	}

	// --- remember cookies
	if s.RememberActive() && rec.Kind == "http" {
		if v := rec.CookiesIn["rm"]; v != "" && rec.SessIn["uid"] == "" {
			if c := s.Cookies[v]; c != nil && c.State == Live {
				consumed := false
				for _, call := range rec.Calls {
					if call.Op == "UseRememberToken" && call.Arg == c.PID && call.Result == "" {
						consumed = true // the server's token table reported the token as used up
					}
				}
				if SessPutAny(rec, "uid", c.PID) || consumed {
					c.State = Spent
				} else {
					c.State = Limbo
				}
			}
		}
	}
	// Every rm value the response set is a cookie the client has seen. The i-th value belongs to
	// the account the i-th AddRememberToken call of this request named (the server's own token
	// table is the ground truth for "issued to"); without such a call, to the session's user.
	var addedFor []string
	for _, c := range rec.Calls {
		if c.Op == "AddRememberToken" && !strings.HasPrefix(c.Result, "fault") {
			addedFor = append(addedFor, c.Arg)
		}
	}
	i := 0
	for _, evs := range rec.CookWrites {
		for _, e := range evs {
			if e.Kind != "put" || e.Key != "rm" {
				continue
			}
			pid := rec.SessOut["uid"]
			if i < len(addedFor) {
				pid = addedFor[i]
			}
			i++
			if s.Cookies[e.Value] == nil {
				s.Cookies[e.Value] = &CookieRec{Val: e.Value, PID: pid, Issued: st.I, Asked: a.opt("rm") == "true" || a.opt("asked") == "true"}
			}
		}
	}

	// --- password changes (after the cookies of this request are known: a purge in the same
	// request also removes a token minted earlier in it)
	for _, ch := range rec.Diff() {
		if ch.Field != "Password" {
			continue
		}
		ac := s.AcctByPID(ch.PID)
		if ac == nil {
			continue
		}
		np := ""
		switch a.Kind {
		case "recover_end":
			np = a.Secret2
		case "admin_updatepw":
			np = a.Secret
		}
		if ac.Pw != "" {
			ac.OldPw = append(ac.OldPw, ac.Pw)
		}
		ac.Pw = np
		// a completed change revokes the account's cookies; one that errored out midway (e.g. the
		// token purge itself failed) leaves them in limbo: nothing is demanded of them
		revoked := Dead
		if rec.HandlerErr != "" || rec.AdminErr != "" || rec.Panic != "" {
			revoked = Limbo
		}
		for _, c := range s.Cookies {
			if c.PID == ac.PID && (c.State == Live || c.State == Limbo) {
				c.State = revoked
			}
		}
	}

	// --- one-time passwords
	if a.Kind == "otp_add" && rec.JSON != nil {
		if v, ok := rec.JSON["otp"].(string); ok && v != "" {
			if ac := s.AcctByPID(st.UIDIn); ac != nil {
				ac.OTPs = append(ac.OTPs, &Secret{Val: v})
			}
		}
	}
	if a.Kind == "otp_login" {
		if ac := s.AcctByPID(a.PID); ac != nil {
			if o := find(ac.OTPs, a.Secret); o != nil && o.State == Live {
				o.State = Limbo
				if v, ok := SessPut(rec, "uid"); ok && v == ac.PID {
					o.State = Spent
				}
				// consumed durably (its stored form is gone) although the request did not complete
				if b, af := rec.Before.Users[ac.PID], rec.After.Users[ac.PID]; b != nil && af != nil {
					h := Sha512B64(a.Secret)
					if strings.Contains(b.OTPs, h) && !strings.Contains(af.OTPs, h) {
						o.State = Spent
					}
				}
				for _, k := range []string{"totp_pending", "sms_pending"} {
					if v, ok := SessPut(rec, k); ok && v == ac.PID {
						o.State = Spent
					}
				}
			}
		}
	}
	if a.Kind == "otp_clear" && rec.Status == 200 && rec.HandlerErr == "" && rec.Panic == "" {
		if ac := s.AcctByPID(st.UIDIn); ac != nil {
			for _, o := range ac.OTPs {
				o.State = Dead
			}
		}
	}

	// --- recovery codes
	// whatever the response showed: when an account's stored list was replaced (an enrolment or regeneration whose
	// page an application listener answered in the library's stead, 2FA switched off), the codes handed out
	// earlier are dead. (A list that shrank by exactly one is a consumption, handled below.)
	for _, d := range rec.Diff() {
		if d.Field != "RecoveryCodes" {
			continue
		}
		nOld, nNew := 0, 0
		if d.Old != "" {
			nOld = len(strings.Split(d.Old, ","))
		}
		if d.New != "" {
			nNew = len(strings.Split(d.New, ","))
		}
		if nNew == nOld-1 {
			continue
		}
		if ac := s.AcctByPID(d.PID); ac != nil {
			for _, c := range ac.Recov {
				if c.State == Live || c.State == Limbo {
					c.State = Dead
				}
			}
		}
	}
	if rec.JSON != nil {
		if list, ok := rec.JSON["recovery_codes"].([]interface{}); ok && len(list) > 0 {
			if ac := s.AcctByPID(st.UIDIn); ac != nil {
				for _, c := range ac.Recov {
					c.State = Dead
				}
				for _, v := range list {
					if sv, ok := v.(string); ok {
						ac.Recov = append(ac.Recov, &Secret{Val: sv})
					}
				}
			}
		}
	}
	if a.Secret2 != "" && (strings.HasSuffix(a.Kind, "_validate") || strings.HasSuffix(a.Kind, "_remove")) {
		kind := strings.SplitN(a.Kind, "_", 2)[0]
		sub := s.AcctByPID(rec.SessIn["uid"])
		if sub == nil && s.RememberActive() {
			if c := s.Cookies[rec.CookiesIn["rm"]]; c != nil && SessPutAny(rec, "uid", c.PID) && SessPutAny(rec, "halfauth", "true") {
				sub = s.AcctByPID(c.PID) // re-authenticated by the remember middleware in this request
			}
		}
		if sub == nil {
			sub = s.AcctByPID(rec.SessIn[kind+"_pending"])
		}
		if sub != nil {
			if c := find(sub.Recov, a.Secret2); c != nil && c.State == Live {
				c.State = Limbo
				if b, af := rec.Before.Users[sub.PID], rec.After.Users[sub.PID]; b != nil && af != nil && len(strings.Split(af.RecoveryCodes, ",")) < len(strings.Split(b.RecoveryCodes, ",")) {
					still := false
					for _, h := range strings.Split(af.RecoveryCodes, ",") {
						if h != "" && BcryptOK(h, a.Secret2) {
							still = true
						}
					}
					if !still {
						c.State = Spent // durably consumed even if the request then failed
					}
				}
				if strings.HasSuffix(a.Kind, "_validate") {
					if v, ok := SessPut(rec, "uid"); ok && v == sub.PID {
						c.State = Spent
					}
				} else {
					for _, ch := range rec.Diff() {
						if ch.PID == sub.PID && (ch.Field == "TOTPSecretKey" || ch.Field == "SMSPhone") && ch.New == "" {
							c.State = Spent
						}
					}
				}
			}
		}
	}

	// --- oauth2 state
	if a.Kind == "oauth_start" && rec.Location != "" {
		if u, err := url.Parse(rec.Location); err == nil {
			if stv := u.Query().Get("state"); stv != "" {
				for old := range bs.OAuthState {
					bs.OAuthSpent[old] = true
					delete(bs.OAuthState, old)
				}
				bs.OAuthState[stv] = a.opt("provider")
			}
		}
	}
	if a.Kind == "oauth_cb" {
		// spent once a matching callback made the session drop it (if the session still holds it,
		// that very callback has already been reported by the C14 monitor)
		if _, ok := bs.OAuthState[a.Secret]; ok && a.Secret != "" && rec.SessOut["oauth2_state"] != a.Secret {
			delete(bs.OAuthState, a.Secret)
			bs.OAuthSpent[a.Secret] = true
		}
	}

	// --- pending second-factor logins
	for _, k := range []string{"totp", "sms"} {
		in, out := rec.SessIn[k+"_pending"], rec.SessOut[k+"_pending"]
		if rec.Kind != "http" {
			continue
		}
		if out == "" {
			delete(bs.Pending, k)
		} else if out != in || (primaryOK && primaryPID == out) {
			if v, ok := SessPut(rec, k+"_pending"); ok && v == out {
				bs.Pending[k] = &Pend{PID: out, Justified: primaryOK && primaryPID == out}
			}
		}
	}

	// --- 2FA e-mail authorisation
	if a.Kind == "ev_end" && a.Secret != "" {
		sid := rec.CookiesIn[world.SidCookie]
		var latest *MailTok
		for _, t := range s.Toks {
			if t.Kind == "ev" && t.B == a.B && t.Sid == sid {
				latest = t
			}
		}
		if latest != nil && latest.Token == a.Secret && latest.State == Live && latest.PID == rec.SessIn["uid"] {
			latest.State = Spent
			bs.EVAuthed = true
			bs.EVFor = latest.PID
		}
	}
	for _, ch := range rec.Diff() {
		if (ch.Field == "TOTPSecretKey" || ch.Field == "SMSPhone") && ch.New != "" {
			if rec.FaultsFired > 0 && rec.SessOut["twofactor_authed"] == "true" {
				// a failure was injected into this request after the enrolment had been saved, and the
				// response (with it the session changes) was never delivered: what the session owes then
				// is not something the property speaks about — no demand, follow the library
				continue
			}
			bs.EVAuthed = false
		}
	}
	if rec.Kind == "http" && rec.SessOut["uid"] == "" {
		bs.EVAuthed = false
	}
}

func (s *Sim) learnMail(m world.Mail, st *Step) {
	var body map[string]interface{}
	if json.Unmarshal([]byte(m.Email.TextBody), &body) != nil {
		return
	}
	us, _ := body["url"].(string)
	if us == "" {
		us, _ = body["recover_url"].(string)
	}
	u, err := url.Parse(us)
	if err != nil || us == "" {
		return
	}
	t := &MailTok{To: append([]string(nil), m.Email.To...), IssuedAt: st.Rec.Now, B: -1}
	switch {
	case strings.Contains(us, "confirm?cnf="):
		t.Kind, t.Token = "confirm", u.Query().Get("cnf")
	case strings.Contains(us, "recover/end?token="):
		t.Kind, t.Token = "recover", u.Query().Get("token")
	case strings.Contains(us, "/email/verify/end?token="):
		t.Kind, t.Token = "ev", u.Query().Get("token")
		if strings.Contains(us, "2fa/totp/") {
			t.EVKind = "totp"
		} else {
			t.EVKind = "sms"
		}
		t.B = st.Act.B
		t.Sid = st.Rec.CookiesOut[world.SidCookie]
	default:
		return
	}
	if len(t.To) > 0 {
		if ac := s.acctByEmail(t.To[0]); ac != nil {
			t.PID = ac.PID
		}
	}
	if t.PID == "" {
		// account created in this very request (register → confirm)
		for _, ch := range st.Rec.Diff() {
			if ch.Field == "<created>" {
				if u := st.Rec.After.Users[ch.PID]; u != nil && len(t.To) > 0 && u.Email == t.To[0] {
					t.PID = ch.PID
				}
			}
		}
	}
	if t.Kind == "confirm" || t.Kind == "recover" {
		for _, o := range s.Toks {
			if o.Kind == t.Kind && o.PID == t.PID && (o.State == Live || o.State == Limbo) {
				o.State = Dead
			}
		}
	}
	s.Toks = append(s.Toks, t)
}

// MarkTokenUse records the presentation of a confirm/recover token (call from Learn-time code in
// the monitors that own those flows): accepted → Spent.
func (s *Sim) MarkTokenUse(kind, sub string, accepted bool) {
	if t := s.TokenByBytes(kind, sub); t != nil && t.State == Live && accepted {
		t.State = Spent
	}
}

func itoa(i int) string {
	b, _ := json.Marshal(i)
	return string(b)
}
