// Package sim drives seeded, symbolic histories through a world and keeps the oracle's ledger:
// what a real user or attacker could know about secrets (typed or seeded passwords, codes shown
// in responses, cookies seen in Set-Cookie, tokens read from the mail outbox, SMS codes with the
// number they went to, OAuth2 states seen in start redirects). Monitors are evaluated online,
// after every request, against the ledger as it stood BEFORE that request.
package sim

import (
	"encoding/json"
	"errors"
	"fmt"
	"math/rand"
	"net/url"
	"sort"
	"strings"
	"time"

	"verif/world"
)

// Secret states.
const (
	Live  = 0
	Spent = 1 // accepted once already
	Limbo = 2 // presented in a request that did not complete; nothing is demanded of it
	Dead  = 3 // cleared, regenerated, superseded or revoked
)

type Secret struct {
	Val   string
	State int
}

// Account is the ledger's view of one account.
type Account struct {
	Idx   int
	PID   string
	Email string
	Pw    string
	OldPw []string
	Phone string // the phone the account's owner holds
	OTPs  []*Secret
	Recov []*Secret
	Ident *world.Identity // set for OAuth2 accounts
}

func (a *Account) live(list []*Secret) []string {
	var out []string
	for _, s := range list {
		if s.State == Live {
			out = append(out, s.Val)
		}
	}
	return out
}

func find(list []*Secret, v string) *Secret {
	for _, s := range list {
		if s.Val == v {
			return s
		}
	}
	return nil
}

// CookieRec is one remember-me cookie value the harness has seen.
type CookieRec struct {
	Val    string
	PID    string
	State  int
	Issued int // step index
	Asked  bool
}

// MailTok is a token read from the mail outbox.
type MailTok struct {
	Kind     string // confirm | recover | ev
	EVKind   string // totp | sms (ev only)
	PID      string
	Token    string
	To       []string
	IssuedAt time.Time
	State    int
	B        int // requesting browser (ev), else -1
	Sid      string
}

type Pend struct {
	PID       string
	Justified bool
}

// BState is the ledger's view of one browser.
type BState struct {
	B          *world.Browser
	OAuthState map[string]string // state value → provider (issued to this browser, unspent)
	OAuthSpent map[string]bool
	Pending    map[string]*Pend // "totp"/"sms" → pending login
	EVAuthed   bool             // presented a mailed 2FA e-mail token in this session
	EVFor      string           // … mailed to this account
	LastAct    time.Time        // last authenticated activity (for the idle oracle)
	HasAct     bool
}

// Action is one symbolic step.
type Action struct {
	Kind string
	B    int
	A    int    // account index; -1 unknown pid; -2 empty pid
	Cls  string // class of the main secret
	Cls2 string // class of the secondary argument
	Opt  map[string]string

	// resolved when executed
	PID      string
	Secret   string
	Secret2  string
	Resolved string
	Path     string
	Method   string
	Form     map[string]string
}

func (a *Action) opt(k string) string {
	if a.Opt == nil {
		return ""
	}
	return a.Opt[k]
}

// Desc is the symbolic description (no concrete secrets): what replay files and evidence show.
func (a *Action) Desc() string {
	var ks []string
	for k := range a.Opt {
		ks = append(ks, k)
	}
	sort.Strings(ks)
	var o []string
	for _, k := range ks {
		o = append(o, k+"="+trunc(a.Opt[k], 40))
	}
	s := fmt.Sprintf("%s{b%d", a.Kind, a.B)
	if a.A != -9 {
		s += fmt.Sprintf(" acct#%d", a.A)
	}
	if a.Cls != "" {
		s += " " + a.Cls
		if a.Resolved != "" && a.Resolved != a.Cls {
			s += "→" + a.Resolved
		}
	}
	if a.Cls2 != "" {
		s += " " + a.Cls2
	}
	if len(o) > 0 {
		s += " " + strings.Join(o, ",")
	}
	return s + "}"
}

// Step is one executed action with everything observed.
type Step struct {
	I       int
	Act     *Action
	Rec     *world.Rec
	UIDIn   string
	UIDOut  string
	Others  []string // other browsers whose session changed during this request
	Outcome string
}

// Sim is one history in progress.
type Sim struct {
	W       *world.World
	Cfg     world.Cfg
	R       *rand.Rand
	Accts   []*Account
	Br      []*BState
	Cookies map[string]*CookieRec
	Toks    []*MailTok
	Idents  []world.Identity
	Hist    []string
	N       int
	ghost   int
	Phones  []string
	Pending []*Action // follow-up actions queued by the generator (consumed before new draws)
}

// SeedOpt controls account seeding.
type SeedOpt struct {
	Accounts    int
	Browsers    int
	TwoFAProb   float64  // probability that a seeded account has a second factor (if configured)
	Unconfirmed float64  // probability that a seeded account is unconfirmed (if confirm loaded)
	PIDs        []string // explicit PIDs (hostile corpus); overrides generated ones
}

// New builds the world for cfg and seeds accounts.
func New(cfg world.Cfg, r *rand.Rand, so SeedOpt) (*Sim, error) {
	w, err := world.New(cfg, fmt.Sprintf("%x", r.Int63()))
	if err != nil {
		return nil, err
	}
	s := &Sim{W: w, Cfg: cfg, R: r, Cookies: map[string]*CookieRec{}}
	if so.Accounts == 0 {
		so.Accounts = 3
	}
	if so.Browsers == 0 {
		so.Browsers = 3
	}
	for i := 0; i < so.Browsers; i++ {
		s.Br = append(s.Br, &BState{B: world.NewBrowser(i), OAuthState: map[string]string{}, OAuthSpent: map[string]bool{}, Pending: map[string]*Pend{}})
	}
	for i := 0; i < so.Accounts; i++ {
		pid := fmt.Sprintf("user%d@site%d.test", i, i)
		if i%2 == 1 {
			pid = fmt.Sprintf("User%d@Site%d.test", i, i) // identifiers are case-sensitive byte strings to the library
		}
		if i < len(so.PIDs) {
			pid = so.PIDs[i]
		}
		a := &Account{Idx: i, PID: pid, Email: fmt.Sprintf("mail%d@inbox%d.test", i, i), Pw: fmt.Sprintf("Passw0rd!%c%d", 'a'+i, r.Intn(1000)), Phone: fmt.Sprintf("+1555010%d", i)}
		if i >= len(so.PIDs) {
			a.Email = pid
		}
		u := &world.User{PID: a.PID, Email: a.Email, Password: w.HashPw(a.Pw), Confirmed: true}
		if cfg.Secondary {
			u.Secondary = []string{fmt.Sprintf("alt%d@inbox%d.test", i, i)}
		}
		if cfg.Has("confirm") && r.Float64() < so.Unconfirmed {
			u.Confirmed = false
		}
		if len(cfg.TwoFA) > 0 && r.Float64() < so.TwoFAProb {
			kinds := append([]string(nil), cfg.TwoFA...)
			k := kinds[r.Intn(len(kinds))]
			both := len(kinds) == 2 && r.Intn(4) == 0
			if k == "totp" || both {
				u.TOTPSecretKey = newTOTPSecret(r)
			}
			if k == "sms" || both {
				u.SMSPhone = a.Phone
			}
			var hashed []string
			for j := 0; j < 3; j++ {
				c := fmt.Sprintf("rc%d%dx-%05d", i, j, r.Intn(100000))
				a.Recov = append(a.Recov, &Secret{Val: c})
				hashed = append(hashed, Hash4(c))
			}
			u.RecoveryCodes = strings.Join(hashed, ",")
		}
		w.Store.Put(u)
		s.Accts = append(s.Accts, a)
	}
	for _, p := range cfg.Providers {
		for i := 0; i < 2; i++ {
			s.Idents = append(s.Idents, world.Identity{Provider: p, UID: fmt.Sprintf("%s-uid-%d", p, i), Email: fmt.Sprintf("o%d@%s.test", i, p)})
		}
	}
	return s, nil
}

var errBackend = errors.New("backend unavailable")

const b32 = "ABCDEFGHIJKLMNOPQRSTUVWXYZ234567"

func newTOTPSecret(r *rand.Rand) string {
	b := make([]byte, 32)
	for i := range b {
		b[i] = b32[r.Intn(32)]
	}
	return string(b)
}

// AcctByPID finds the ledger account for a PID.
func (s *Sim) AcctByPID(pid string) *Account {
	for _, a := range s.Accts {
		if a.PID == pid {
			return a
		}
	}
	return nil
}

func (s *Sim) acctByEmail(e string) *Account {
	for _, a := range s.Accts {
		if a.Email == e {
			return a
		}
	}
	return nil
}

// Stored is the storage record of pid in snapshot sn.
func Stored(sn *world.Snapshot, pid string) *world.User { return sn.Users[pid] }

// ---------------------------------------------------------------------------------------------
// execution

// Exec resolves and runs one action, returns the step. The ledger is NOT updated; call Learn
// after the monitors have judged the step.
func (s *Sim) Exec(a *Action) *Step {
	s.N++
	st := &Step{I: s.N, Act: a}
	bs := s.Br[a.B%len(s.Br)]
	a.B = a.B % len(s.Br)
	before := s.sessionsOfOthers(a.B)
	st.UIDIn = s.W.Sess.Of(bs.B)["uid"]

	switch a.Kind {
	case "advance":
		d, _ := time.ParseDuration(a.opt("d"))
		s.W.Advance(d)
		st.Rec = &world.Rec{Kind: "advance", Browser: -1, Method: "ADVANCE", Target: a.opt("d"), Now: s.W.Now(), Before: s.W.Store.Snapshot()}
		st.Rec.After = st.Rec.Before
	case "admin_lock", "admin_unlock", "admin_updatepw", "admin_startconfirm":
		a.PID = s.resolvePID(a)
		switch a.Kind {
		case "admin_lock":
			st.Rec = s.W.AdminLock(a.PID)
		case "admin_unlock":
			st.Rec = s.W.AdminUnlock(a.PID)
		case "admin_updatepw":
			a.Secret = s.newPassword(a)
			st.Rec = s.W.AdminUpdatePassword(a.PID, a.Secret)
		case "admin_startconfirm":
			st.Rec = s.W.AdminStartConfirmation(a.PID)
		}
	case "admin_enable2fa":
		// the operator's support tool switches a second factor on for the account (secret / phone handed over
		// out of band): from now on the account HAS a second factor, whatever its sessions looked like before
		a.PID = s.resolvePID(a)
		before := s.W.Store.Snapshot()
		if a.A >= 0 && a.A < len(s.Accts) {
			s.SetTwoFA(a.A, a.opt("kind") == "totp", a.opt("kind") == "sms")
		}
		st.Rec = &world.Rec{Kind: "local", Browser: a.B, Method: "LOCAL", Target: "admin_enable2fa " + a.opt("kind"), Now: s.W.Now(), Before: before, After: s.W.Store.Snapshot()}
	case "steal":
		// copy a remember cookie value into this browser's jar (theft / replay); no request
		val := s.resolveCookie(a)
		if val == "" {
			delete(bs.B.Jar, "rm")
		} else {
			bs.B.Jar["rm"] = val
		}
		a.Secret = val
		st.Rec = &world.Rec{Kind: "local", Browser: a.B, Method: "LOCAL", Target: "steal", Now: s.W.Now(), Before: s.W.Store.Snapshot()}
		st.Rec.After = st.Rec.Before
	case "faultnext":
		// the named backend operation fails once in the next request (e.g. the SMS gateway is down)
		s.W.FaultOps = map[string]error{a.opt("op"): errBackend}
		st.Rec = &world.Rec{Kind: "local", Browser: a.B, Method: "LOCAL", Target: "faultnext " + a.opt("op"), Now: s.W.Now(), Before: s.W.Store.Snapshot()}
		st.Rec.After = st.Rec.Before
	case "hooknext":
		// the application's own After-event listener answers the next request itself, or fails in it
		s.W.HookMode = a.opt("mode")
		st.Rec = &world.Rec{Kind: "local", Browser: a.B, Method: "LOCAL", Target: "hooknext " + a.opt("mode"), Now: s.W.Now(), Before: s.W.Store.Snapshot()}
		st.Rec.After = st.Rec.Before
	case "dropsid":
		delete(bs.B.Jar, world.SidCookie)
		bs.Pending = map[string]*Pend{}
		bs.OAuthState = map[string]string{}
		bs.EVAuthed = false
		bs.HasAct = false
		st.Rec = &world.Rec{Kind: "local", Browser: a.B, Method: "LOCAL", Target: "dropsid", Now: s.W.Now(), Before: s.W.Store.Snapshot()}
		st.Rec.After = st.Rec.Before
	default:
		rq := s.build(a, bs)
		s.W.Prov.LastReported = nil
		a.Path, a.Method, a.Form = rq.Path, rq.Method, rq.Form
		st.Rec = s.W.Do(bs.B, rq)
	}
	st.UIDOut = s.W.Sess.Of(bs.B)["uid"]
	after := s.sessionsOfOthers(a.B)
	for i := range before {
		if before[i] != after[i] {
			st.Others = append(st.Others, fmt.Sprintf("b%d: %s → %s", i, before[i], after[i]))
		}
	}
	st.Outcome = outcome(st)
	s.Hist = append(s.Hist, a.Desc()+" ⇒ "+st.Outcome)
	return st
}

func outcome(st *Step) string {
	r := st.Rec
	o := fmt.Sprintf("%d", r.Status)
	if r.Location != "" {
		l := r.Location
		if i := strings.IndexByte(l, '?'); i >= 0 {
			l = l[:i]
		}
		o += " →" + trunc(l, 40)
	}
	if r.JSON != nil {
		if v, ok := r.JSON["status"].(string); ok {
			o += " " + v
		}
	}
	if st.UIDIn != st.UIDOut {
		o += " uid:" + cls(st.UIDIn) + "→" + cls(st.UIDOut)
	}
	if r.HandlerErr != "" {
		o += " err"
	}
	if r.Panic != "" {
		o += " PANIC"
	}
	if r.AdminErr != "" {
		o += " adminerr"
	}
	return o
}

func cls(uid string) string {
	if uid == "" {
		return "∅"
	}
	return "set"
}

func (s *Sim) sessionsOfOthers(b int) []string {
	out := make([]string, len(s.Br))
	for i, bs := range s.Br {
		if i == b {
			continue
		}
		m := s.W.Sess.Of(bs.B)
		j, _ := json.Marshal(m)
		out[i] = string(j)
	}
	return out
}

func (s *Sim) resolvePID(a *Action) string {
	switch {
	case a.A >= 0 && a.A < len(s.Accts):
		return s.Accts[a.A].PID
	case a.A == -2:
		return ""
	case a.A == -3 && len(s.Accts) > 0: // near miss of a real pid
		p := s.Accts[0].PID
		return strings.ToUpper(p[:1]) + p[1:]
	default:
		s.ghost++
		return fmt.Sprintf("ghost%d@nowhere.test", s.ghost)
	}
}

func (s *Sim) acct(a *Action) *Account {
	if a.A >= 0 && a.A < len(s.Accts) {
		return s.Accts[a.A]
	}
	return nil
}

func (s *Sim) otherAcct(a *Action) *Account {
	if len(s.Accts) < 2 {
		return nil
	}
	i := s.R.Intn(len(s.Accts))
	if i == a.A {
		i = (i + 1) % len(s.Accts)
	}
	return s.Accts[i]
}

// resolvePw turns a password class into a concrete string.
func (s *Sim) resolvePw(a *Action, cl string) (string, string) {
	ac := s.acct(a)
	switch cl {
	case "ok":
		if ac != nil && ac.Pw != "" {
			return ac.Pw, "ok"
		}
	case "empty":
		return "", "empty"
	case "other":
		if o := s.otherAcct(a); o != nil && o.Pw != "" {
			return o.Pw, "other"
		}
	case "stale":
		if ac != nil && len(ac.OldPw) > 0 {
			return ac.OldPw[len(ac.OldPw)-1], "stale"
		}
	case "hash":
		if ac != nil {
			if u := s.W.Store.Peek(ac.PID); u != nil && u.Password != "" {
				return u.Password, "hash"
			}
		}
	case "near":
		if ac != nil && len(ac.Pw) > 1 {
			switch s.R.Intn(5) {
			case 0:
				return ac.Pw[:len(ac.Pw)-1], "near"
			case 1:
				return ac.Pw + "x", "near"
			case 2:
				return strings.ToUpper(ac.Pw), "near"
			case 3:
				return " " + ac.Pw, "near"
			default:
				b := []byte(ac.Pw)
				b[s.R.Intn(len(b))] ^= 1
				return string(b), "near"
			}
		}
	case "cyc": // bcrypt-equivalent respelling: pw‖NUL‖pw
		if ac != nil && ac.Pw != "" && len(ac.Pw) < 36 {
			return ac.Pw + "\x00" + ac.Pw, "cyc"
		}
	case "nul":
		if ac != nil {
			return ac.Pw + "\x00junk", "nul"
		}
	case "long":
		return strings.Repeat("A1!a", 1100), "long"
	case "nonascii":
		return "pässwörd✓1A!", "nonascii"
	}
	return fmt.Sprintf("Wr0ng!pass%d", s.R.Intn(1e6)), "wrong"
}

// newPassword draws the new password of a recovery / update (Cls2 or Opt["newpw"]).
func (s *Sim) newPassword(a *Action) string {
	ac := s.acct(a)
	switch a.Cls2 {
	case "lit":
		return a.opt("newpw")
	case "weak":
		return "abc"
	case "same":
		if ac != nil {
			return ac.Pw
		}
	case "long73":
		return strings.Repeat("Aa1!", 18) + "x" // 73 bytes: refused by bcrypt
	case "long72":
		return strings.Repeat("Aa1!", 18) // exactly 72 bytes
	case "long71":
		return strings.Repeat("Aa1!", 17) + "Aa1" // 71 bytes
	case "nonascii":
		return fmt.Sprintf("Pässwörd✓1A!%d", s.R.Intn(1000))
	case "nul":
		return fmt.Sprintf("New\x00Passw0rd!%d", s.R.Intn(1000))
	case "one":
		return "x"
	case "wsends":
		// policy-conforming except for whitespace at an end (the default policy allows no whitespace at all)
		return []string{" Lead1ng!space", "Trail1ng!space ", "\tTabbed1!pass", "Newl1ne!pass\n", "\u00a0Nbsp1!passw", "Ideo1!space\u3000"}[s.R.Intn(6)]
	case "hashshaped":
		// a password that is itself a well-formed bcrypt hash string (of something else), at the hasher's
		// cost or above: 60 bytes, upper/lower/digit/symbol — an ordinary, policy-conforming passphrase
		// as far as anybody is concerned
		h := []byte(Hash4(fmt.Sprintf("not-the-password-%d", s.R.Intn(1e6))))
		copy(h[4:6], []string{"04", "05", "06", "10"}[s.R.Intn(4)])
		return string(h)
	}
	return fmt.Sprintf("NewPassw0rd!%d", s.R.Intn(1e6))
}

func (s *Sim) resolveCookie(a *Action) string {
	var vals []string
	for v := range s.Cookies {
		vals = append(vals, v)
	}
	sort.Slice(vals, func(i, j int) bool { return s.Cookies[vals[i]].Issued < s.Cookies[vals[j]].Issued })
	want := func(f func(c *CookieRec) bool) string {
		var m []string
		for _, v := range vals {
			if f(s.Cookies[v]) {
				m = append(m, v)
			}
		}
		if len(m) == 0 {
			return ""
		}
		return m[s.R.Intn(len(m))]
	}
	switch a.Cls {
	case "live":
		if v := want(func(c *CookieRec) bool { return c.State == Live }); v != "" {
			a.Resolved = "live"
			return v
		}
	case "spent":
		if v := want(func(c *CookieRec) bool { return c.State == Spent }); v != "" {
			a.Resolved = "spent"
			return v
		}
	case "revoked":
		if v := want(func(c *CookieRec) bool { return c.State == Dead }); v != "" {
			a.Resolved = "revoked"
			return v
		}
	case "raw":
		a.Resolved = "raw"
		return a.opt("val")
	case "none":
		a.Resolved = "none"
		return ""
	}
	a.Resolved = "garbage"
	return b64url([]byte(fmt.Sprintf("nobody@x.test;%032d", s.R.Int63())))
}

// Tokens exposes the mailed-token ledger query to checks.
func (s *Sim) Tokens(kind, pid string, state int) []*MailTok { return s.tokens(kind, pid, state) }

// tokenFor returns mailed tokens of the wanted kind/state for an account (latest first).
func (s *Sim) tokens(kind string, pid string, state int) []*MailTok {
	var out []*MailTok
	for i := len(s.Toks) - 1; i >= 0; i-- {
		t := s.Toks[i]
		if t.Kind == kind && (pid == "*" || t.PID == pid) && (state < 0 || t.State == state) {
			out = append(out, t)
		}
	}
	return out
}

// resolveToken turns a token class into the string to submit.
func (s *Sim) resolveToken(a *Action, kind string) (string, string) {
	ac := s.acct(a)
	pid := "*"
	if ac != nil {
		pid = ac.PID
	}
	first := func(ts []*MailTok) *MailTok {
		if len(ts) > 0 {
			return ts[0]
		}
		return nil
	}
	switch a.Cls {
	case "lit":
		return a.opt("tok"), a.opt("litclass")
	case "current":
		if t := first(s.tokens(kind, pid, Live)); t != nil {
			return t.Token, "current"
		}
	case "used":
		if t := first(s.tokens(kind, pid, Spent)); t != nil {
			return t.Token, "used"
		}
	case "superseded":
		if t := first(s.tokens(kind, pid, Dead)); t != nil {
			return t.Token, "superseded"
		}
	case "otheracct":
		for _, t := range s.tokens(kind, "*", Live) {
			if t.PID != pid {
				return t.Token, "otheracct"
			}
		}
	case "bitflip":
		if t := first(s.tokens(kind, pid, Live)); t != nil {
			if raw, err := decodeTok(t.Token); err == nil && len(raw) > 0 {
				return b64url(flipBit(raw, s.R.Intn(len(raw)*8))), "bitflip"
			}
		}
	case "trunc":
		if t := first(s.tokens(kind, pid, Live)); t != nil {
			if raw, err := decodeTok(t.Token); err == nil && len(raw) > 1 {
				return b64url(raw[:len(raw)-1-s.R.Intn(len(raw)-1)]), "trunc"
			}
		}
	case "extend":
		if t := first(s.tokens(kind, pid, Live)); t != nil {
			if raw, err := decodeTok(t.Token); err == nil {
				return b64url(append(raw, byte(s.R.Intn(256)))), "extend"
			}
		}
	case "trailing": // valid token followed by one stray character (not valid base64 any more)
		if t := first(s.tokens(kind, pid, Live)); t != nil {
			return t.Token + "!", "trailing"
		}
	case "stored":
		if ac != nil {
			if u := s.W.Store.Peek(ac.PID); u != nil {
				sel, ver := u.ConfirmSelector, u.ConfirmVerifier
				if kind == "recover" {
					sel, ver = u.RecoverSelector, u.RecoverVerifier
				}
				if sel != "" {
					return pick(s.R, sel, ver, sel+ver), "stored"
				}
			}
		}
	case "empty":
		return "", "empty"
	}
	b := make([]byte, 64)
	s.R.Read(b)
	return b64url(b), "garbage"
}

func decodeTok(t string) ([]byte, error) { return base64URLDecode(t) }

// build turns an action into a request.
func (s *Sim) build(a *Action, bs *BState) world.Req {
	w := s.W
	f := map[string]string{}
	rq := world.Req{Method: "POST", Form: f}
	addRedir := func() {
		if v := a.opt("redir"); v != "" {
			f["redir"] = v
		}
	}
	switch a.Kind {
	case "login":
		a.PID = s.resolvePID(a)
		a.Secret, a.Resolved = s.resolvePw(a, a.Cls)
		rq.Path = w.P("/login")
		f["email"], f["password"] = a.PID, a.Secret
		if a.opt("spell") == "flipcase" && a.PID != "" {
			// another spelling of the identifier, which a case-insensitive lookup resolves to the same account
			c := a.PID[:1]
			if c == strings.ToUpper(c) {
				c = strings.ToLower(c)
			} else {
				c = strings.ToUpper(c)
			}
			f["email"] = c + a.PID[1:]
		}
		if v := a.opt("rm"); v != "" {
			f["rm"] = v
		}
		addRedir()
	case "otp_login":
		a.PID = s.resolvePID(a)
		a.Secret, a.Resolved = s.resolveOTP(a)
		rq.Path = w.P("/otp/login")
		f["email"], f["password"] = a.PID, a.Secret
		if v := a.opt("rm"); v != "" {
			f["rm"] = v
		}
		addRedir()
	case "otp_add":
		rq.Path = w.P("/otp/add")
	case "otp_clear":
		rq.Path = w.P("/otp/clear")
	case "logout":
		rq.Method = s.Cfg.LogoutMethod
		if rq.Method == "" {
			rq.Method = "DELETE"
		}
		if m := a.opt("method"); m != "" {
			rq.Method = m
		}
		rq.Path = w.P("/logout")
		sep := "?"
		if a.opt("override") != "" {
			// a request in another method that names the configured one the way method-override conventions
			// do (hidden form field, query parameter, header): the method of a request is its method
			cm := s.Cfg.LogoutMethod
			if cm == "" {
				cm = "DELETE"
			}
			rq.Path += sep + "_method=" + cm
			sep = "&"
			f["_method"] = cm
			rq.Hdr = map[string]string{"X-HTTP-Method-Override": cm, "X-Method-Override": cm}
		}
		for _, k := range []string{"redir", "_lang", "_drop"} {
			if v := a.opt(k); v != "" {
				rq.Path += sep + k + "=" + url.QueryEscape(v)
				sep = "&"
			}
		}
	case "register":
		a.PID = s.resolvePID(a)
		a.Secret = s.newPassword(a)
		rq.Path = w.P("/register")
		f["email"], f["password"], f["confirm_password"] = a.PID, a.Secret, a.Secret
	case "recover_start":
		a.PID = s.resolvePID(a)
		rq.Path = w.P("/recover")
		f["email"] = a.PID
		switch a.opt("spell") { // another spelling of the same identifier (what a case-insensitive lookup finds)
		case "upper":
			f["email"] = strings.ToUpper(a.PID[:1]) + a.PID[1:]
		case "kelvin": // U+212A KELVIN SIGN lower-cases to 'k', U+0130 to 'i̇'
			f["email"] = strings.Replace(strings.Replace(a.PID, "s", "\u017f", 1), "k", "\u212a", 1)
		}
	case "recover_end":
		a.Secret, a.Resolved = s.resolveToken(a, "recover")
		a.Secret2 = s.newPassword(a)
		rq.Path = w.P("/recover/end")
		f["token"], f["password"], f["confirm_password"] = a.Secret, a.Secret2, a.Secret2
	case "confirm":
		a.Secret, a.Resolved = s.resolveToken(a, "confirm")
		if s.Cfg.JSON {
			rq.Path = w.P("/confirm")
			f["cnf"] = a.Secret
		} else {
			rq.Method = "GET"
			rq.Path = w.P("/confirm") + "?cnf=" + url.QueryEscape(a.Secret)
			if q := a.opt("extraquery"); q != "" {
				rq.Path += "&" + q
			}
		}
	case "oauth_start":
		rq.Method = "GET"
		rq.Path = w.P("/oauth2/" + a.opt("provider"))
		q := url.Values{}
		if a.opt("rm") != "" {
			q.Set("rm", a.opt("rm"))
		}
		if a.opt("redir") != "" {
			q.Set("redir", a.opt("redir"))
		}
		if x := a.opt("extraq"); x != "" {
			// further pass-along parameters of the application's own (the library carries them through the round trip)
			for _, kv := range strings.Split(x, "&") {
				if i := strings.IndexByte(kv, '='); i > 0 {
					q.Set(kv[:i], kv[i+1:])
				}
			}
		}
		if len(q) > 0 {
			rq.Path += "?" + q.Encode()
		}
	case "oauth_cb":
		rq.Method = "GET"
		a.Secret, a.Resolved = s.resolveState(a, bs)
		q := url.Values{}
		q.Set("state", a.Secret)
		switch a.Cls2 {
		case "validcode":
			if id := s.ident(a); id != nil {
				a.Secret2 = s.W.Prov.Authorize(*id)
				a.PID = id.Provider + "|" + id.UID
			}
			q.Set("code", a.Secret2)
		case "badcode":
			a.Secret2 = "code-bogus"
			q.Set("code", a.Secret2)
		case "othercode": // a code minted by a different provider
			for _, id := range s.Idents {
				if id.Provider != a.opt("provider") {
					a.Secret2 = s.W.Prov.Authorize(id)
					break
				}
			}
			q.Set("code", a.Secret2)
		case "error":
			q.Set("error", "access_denied")
			q.Set("error_reason", "user_denied")
			if id := s.ident(a); id != nil && s.R.Intn(2) == 0 {
				a.Secret2 = s.W.Prov.Authorize(*id)
				q.Set("code", a.Secret2)
			}
		}
		rq.Path = w.P("/oauth2/callback/"+a.opt("provider")) + "?" + q.Encode()
	case "totp_setup":
		rq.Path = w.P("/2fa/totp/setup")
	case "totp_confirm_get":
		rq.Method = "GET"
		rq.Path = w.P("/2fa/totp/confirm")
	case "totp_confirm", "totp_remove", "totp_validate":
		rq.Path = w.P("/2fa/totp/" + strings.TrimPrefix(a.Kind, "totp_"))
		s.fillCode(a, bs, f, "totp")
		addRedir()
	case "sms_setup":
		rq.Path = w.P("/2fa/sms/setup")
		a.Secret = s.resolveNumber(a)
		f["phone_number"] = a.Secret
	case "sms_confirm", "sms_remove", "sms_validate":
		rq.Path = w.P("/2fa/sms/" + strings.TrimPrefix(a.Kind, "sms_"))
		s.fillCode(a, bs, f, "sms")
		addRedir()
	case "regen":
		rq.Path = w.P("/2fa/recovery/regen")
	case "ev_start":
		rq.Path = w.P("/2fa/" + a.opt("kind") + "/email/verify")
	case "ev_end":
		a.Secret, a.Resolved = s.resolveEV(a, bs)
		if s.Cfg.JSON {
			rq.Path = w.P("/2fa/" + a.opt("kind") + "/email/verify/end")
			f["token"] = a.Secret
		} else {
			rq.Method = "GET"
			rq.Path = w.P("/2fa/"+a.opt("kind")+"/email/verify/end") + "?token=" + url.QueryEscape(a.Secret)
			if a.Cls == "absent" {
				rq.Path = w.P("/2fa/" + a.opt("kind") + "/email/verify/end")
			}
		}
	case "open_link":
		// GET a route with the account's latest mailed token of some kind in the query string
		rq.Method = "GET"
		tok := ""
		if ts := s.tokens(a.opt("tok"), "*", -1); len(ts) > 0 {
			tok = ts[0].Token
		}
		a.Secret = tok
		switch a.opt("where") {
		case "recover_end_get":
			rq.Path = w.P("/recover/end") + "?token=" + url.QueryEscape(tok)
		case "protected":
			rq.Path = "/protected/plain?token=" + url.QueryEscape(tok)
		default:
			rq.Path = w.P(a.opt("where")) + "?token=" + url.QueryEscape(tok)
		}
		if a.opt("broken") != "" {
			rq.Path += "&x=%zz"
		}
	case "visit":
		rq.Method = "GET"
		if m := a.opt("method"); m != "" {
			rq.Method = m
		}
		rq.Path = a.opt("route")
	case "get":
		rq.Method = "GET"
		rq.Path = w.P(a.opt("route"))
	case "appset":
		rq.Method = "GET"
		rq.Path = "/app/set?k=" + url.QueryEscape(a.opt("k")) + "&v=" + url.QueryEscape(a.opt("v"))
	case "raw":
		rq.Method = a.opt("method")
		rq.Path = w.P(a.opt("route"))
		raw := a.opt("body")
		rq.Raw = &raw
		rq.CT = a.opt("ct")
	default:
		panic("sim: unknown action kind " + a.Kind)
	}
	if a.opt("extra") != "" { // extra hostile fields k=v&k=v
		for _, kv := range strings.Split(a.opt("extra"), "&") {
			if i := strings.IndexByte(kv, '='); i > 0 {
				f[kv[:i]] = kv[i+1:]
			}
		}
	}
	if h := a.opt("hdr"); h != "" { // "Name: value" pairs separated by '|'
		rq.Hdr = map[string]string{}
		for _, kv := range strings.Split(h, "|") {
			if i := strings.Index(kv, ": "); i > 0 {
				// {secret}: the secret this request submits, as a link carries it (the page the form was
				// loaded from is what a browser names as Referer)
				rq.Hdr[kv[:i]] = strings.ReplaceAll(strings.ReplaceAll(kv[i+2:], "{secret}", url.QueryEscape(a.Secret)), "{mount}", s.Cfg.Mount)
			}
		}
	}
	if how := a.opt("breakjson"); how != "" && s.Cfg.JSON && rq.Method != "GET" && rq.Raw == nil {
		// an API client whose JSON document is ill-typed or ill-formed AFTER the genuine fields: a boolean
		// where the library expects a string, a trailing comma
		b, _ := json.Marshal(f)
		doc := strings.TrimSuffix(string(b), "}")
		switch how {
		case "bool":
			doc += `,"rm":true}`
		case "number":
			doc += `,"remember":1}`
		default:
			doc += `,}`
		}
		rq.Raw = &doc
		rq.CT = "application/json"
		a.Resolved = "malformed-json"
	}
	return rq
}

func (s *Sim) ident(a *Action) *world.Identity {
	var m []world.Identity
	for _, id := range s.Idents {
		if id.Provider == a.opt("provider") {
			m = append(m, id)
		}
	}
	if len(m) == 0 {
		return nil
	}
	i := 0
	if a.A >= 0 {
		i = a.A % len(m)
	}
	id := m[i]
	if u := a.opt("uid"); u != "" {
		id.UID = u
	}
	return &id
}

func (s *Sim) resolveState(a *Action, bs *BState) (string, string) {
	keys := func(m map[string]string) []string {
		var ks []string
		for k := range m {
			ks = append(ks, k)
		}
		sort.Strings(ks)
		return ks
	}
	// what a browser sends back is the state it saw in the start redirect (never something it
	// would have to read out of the server-side session)
	cur := ""
	if ks := keys(bs.OAuthState); len(ks) > 0 {
		cur = ks[0]
	}
	switch a.Cls {
	case "own":
		if cur != "" {
			return cur, "own"
		}
	case "empty":
		return "", "empty"
	case "otherbrowser":
		for i, o := range s.Br {
			if i != a.B {
				if ks := keys(o.OAuthState); len(ks) > 0 {
					return ks[0], "otherbrowser"
				}
			}
		}
	case "spent":
		var ks []string
		for k := range bs.OAuthSpent {
			ks = append(ks, k)
		}
		sort.Strings(ks)
		if len(ks) > 0 {
			return ks[s.R.Intn(len(ks))], "spent"
		}
	case "prefix":
		if v := cur; len(v) > 2 {
			return v[:len(v)-1], "prefix"
		}
	case "extended":
		if v := cur; v != "" {
			// three spellings that are not the issued string: a further character, a line break a lenient decoder skips, and
			// (for a padded base64url nonce) a last data character differing only in the bits that carry no data
			sum := 0
			for i := 0; i < len(v); i++ {
				sum += int(v[i])
			}
			const alpha = "ABCDEFGHIJKLMNOPQRSTUVWXYZabcdefghijklmnopqrstuvwxyz0123456789-_"
			switch sum % 3 {
			case 1:
				return v + "\n", "extended"
			case 2:
				if n := len(v); n%4 == 0 && n >= 4 && v[n-1] == '=' && v[n-2] != '=' {
					if i := strings.IndexByte(alpha, v[n-2]); i >= 0 {
						return v[:n-2] + string(alpha[i^1]) + "=", "extended"
					}
				}
				return v[:len(v)/2] + "\r\n" + v[len(v)/2:], "extended"
			}
			return v + "A", "extended"
		}
	case "caseflip":
		if v := cur; v != "" {
			if f := flipCase(v); f != v {
				return f, "caseflip"
			}
		}
	}
	return fmt.Sprintf("bogus-state-%d", s.R.Intn(1e6)), "garbage"
}

func flipCase(v string) string {
	b := []byte(v)
	for i, c := range b {
		if c >= 'a' && c <= 'z' {
			b[i] = c - 32
			return string(b)
		}
		if c >= 'A' && c <= 'Z' {
			b[i] = c + 32
			return string(b)
		}
	}
	return v
}

func (s *Sim) resolveOTP(a *Action) (string, string) {
	ac := s.acct(a)
	switch a.Cls {
	case "ok":
		if ac != nil {
			if l := ac.live(ac.OTPs); len(l) > 0 {
				return l[s.R.Intn(len(l))], "ok"
			}
		}
	case "spent":
		if ac != nil {
			for _, o := range ac.OTPs {
				if o.State == Spent {
					return o.Val, "spent"
				}
			}
		}
	case "dead":
		if ac != nil {
			for _, o := range ac.OTPs {
				if o.State == Dead {
					return o.Val, "dead"
				}
			}
		}
	case "other":
		if o := s.otherAcct(a); o != nil {
			if l := o.live(o.OTPs); len(l) > 0 {
				return l[0], "other"
			}
		}
	case "hash":
		if ac != nil {
			if u := s.W.Store.Peek(ac.PID); u != nil && u.OTPs != "" {
				return strings.Split(u.OTPs, ",")[0], "hash"
			}
		}
	case "password":
		if ac != nil && ac.Pw != "" {
			return ac.Pw, "password"
		}
	case "empty":
		return "", "empty"
	}
	return fmt.Sprintf("%08x-%08x-%08x-%08x", s.R.Uint32(), s.R.Uint32(), s.R.Uint32(), s.R.Uint32()), "wrong"
}

func (s *Sim) resolveNumber(a *Action) string {
	switch a.Cls {
	case "empty":
		return ""
	case "other":
		if o := s.otherAcct(a); o != nil {
			return o.Phone
		}
	case "fresh":
		return fmt.Sprintf("+1555099%d", s.R.Intn(1000))
	}
	if ac := s.sessionAcct(a.B); ac != nil {
		return ac.Phone
	}
	return "+15550999"
}

// sessionAcct is the ledger account the browser's session is logged in as (or pending for).
func (s *Sim) sessionAcct(b int) *Account {
	m := s.W.Sess.Of(s.Br[b].B)
	if a := s.AcctByPID(m["uid"]); a != nil {
		return a
	}
	return nil
}

// subject is the account a 2FA code request is about: the logged-in user, else the pending one.
func (s *Sim) subject(b int, kind string) *Account {
	m := s.W.Sess.Of(s.Br[b].B)
	if a := s.AcctByPID(m["uid"]); a != nil {
		return a
	}
	return s.AcctByPID(m[kind+"_pending"])
}

// fillCode fills code / recovery_code for the 2FA endpoints according to the class.
func (s *Sim) fillCode(a *Action, bs *BState, f map[string]string, kind string) {
	sub := s.subject(a.B, kind)
	sess := s.W.Sess.Of(bs.B)
	a.Resolved = a.Cls
	switch a.Cls {
	case "ok":
		switch {
		case kind == "totp" && a.Kind == "totp_confirm":
			if sec := sess["totp_secret"]; sec != "" {
				a.Secret = TOTPNow(sec)
			} else {
				a.Resolved, a.Secret = "wrong", "000000"
			}
		case kind == "totp":
			if sub != nil {
				if u := s.W.Store.Peek(sub.PID); u != nil && u.TOTPSecretKey != "" {
					a.Secret = TOTPAt(u.TOTPSecretKey, []int{0, 0, 0, -1, 1}[s.R.Intn(5)])
					break
				}
			}
			a.Resolved, a.Secret = "wrong", "000000"
		default: // sms: the latest code delivered to the phone the subject's owner holds /
			// the number being enrolled
			num := ""
			if a.Kind == "sms_confirm" {
				num = sess["sms_number"]
			} else if sub != nil {
				if u := s.W.Store.Peek(sub.PID); u != nil {
					num = u.SMSPhone
				}
			}
			if c := s.lastSMSTo(num); c != "" && num != "" {
				a.Secret = c
			} else {
				a.Resolved, a.Secret = "wrong", "000000"
			}
		}
	case "numcode": // the number the latest text went to followed by its code, in one string (no SMS code of
		// anybody looks like that; a check that glues number and code together before comparing is fooled)
		a.Resolved, a.Secret = "wrong", "000008"
		if n := len(s.W.SMSs); n > 0 {
			a.Resolved, a.Secret = "numcode", s.W.SMSs[n-1].Number+s.W.SMSs[n-1].Text
		}
	case "lastsms": // the most recent code delivered to ANY phone the attacker can read
		if n := len(s.W.SMSs); n > 0 {
			a.Secret = s.W.SMSs[n-1].Text
		} else {
			a.Resolved, a.Secret = "wrong", "000001"
		}
	case "ownsms": // the latest code delivered to the phone of account Opt[own]
		own := s.Accts[atoi(a.opt("own"))%len(s.Accts)]
		if c := s.lastSMSTo(own.Phone); c != "" {
			a.Secret = c
		} else {
			a.Resolved, a.Secret = "wrong", "000002"
		}
	case "othertotp": // a currently valid TOTP code of ANOTHER account
		a.Resolved, a.Secret = "wrong", "000003"
		for _, o := range s.Accts {
			if sub != nil && o.PID == sub.PID {
				continue
			}
			if u := s.W.Store.Peek(o.PID); u != nil && u.TOTPSecretKey != "" {
				a.Resolved, a.Secret = "othertotp", TOTPNow(u.TOTPSecretKey)
				break
			}
		}
	case "cur_tail": // the last n digits (Opt[n], 1-5) of the current period's code of the subject's secret: no code
		a.Resolved, a.Secret = "wrong", "000008"
		if sub != nil && kind == "totp" {
			if u := s.W.Store.Peek(sub.PID); u != nil && u.TOTPSecretKey != "" {
				n := 1
				fmt.Sscan(a.opt("n"), &n)
				if c := TOTPNow(u.TOTPSecretKey); n >= 1 && n < len(c) {
					a.Resolved, a.Secret = "cur_tail", c[len(c)-n:]
				}
			}
		}
	case "cur", "cur_ws", "cur_sep": // exactly the current period's code of the subject's secret — verbatim, with
		// surrounding whitespace, with a separator in the middle (other spellings of the SAME code)
		a.Resolved, a.Secret = "wrong", "000006"
		if sub != nil && kind == "totp" {
			if u := s.W.Store.Peek(sub.PID); u != nil && u.TOTPSecretKey != "" {
				c := TOTPNow(u.TOTPSecretKey)
				a.Resolved = a.Cls
				switch a.Cls {
				case "cur":
					a.Secret = c
				case "cur_ws":
					a.Secret = []string{c + " ", " " + c, c + "\n", "\t" + c + " "}[s.R.Intn(4)]
				default:
					a.Secret = c[:3] + []string{" ", "-"}[s.R.Intn(2)] + c[3:]
				}
			}
		}
	case "wrongfield": // a secret of the account typed into the code field by mistake: one of its live
		// recovery codes (Opt[what]=recovery) or its password — not a code, so it is refused
		a.Resolved, a.Secret = "wrong", "000007"
		if sub != nil {
			if l := sub.live(sub.Recov); len(l) > 0 && a.opt("what") != "password" {
				a.Resolved, a.Secret = "wrongfield", l[0]
			} else if sub.Pw != "" {
				a.Resolved, a.Secret = "wrongfield", sub.Pw
			}
		}
	case "blank": // whitespace only
		a.Secret = []string{" ", "  ", "\t", " \n"}[s.R.Intn(4)]
	case "emptysecret": // the current code of the EMPTY secret (anybody can compute it)
		a.Secret = TOTPAt("", 0)
	case "stale": // a far-away step of the right secret
		a.Resolved, a.Secret = "wrong", "000004"
		if sub != nil {
			if u := s.W.Store.Peek(sub.PID); u != nil && u.TOTPSecretKey != "" {
				a.Resolved, a.Secret = "stale", TOTPFar(u.TOTPSecretKey, s.R)
			}
		}
	case "sessionsecret": // whatever sms_secret the session holds (an attacker cannot read it; used
		// only to probe "empty/absent secret" handling when it is empty)
		// (an attacker cannot read the session: when it does hold a code this class degrades to a guess)
		if sess["sms_secret"] != "" {
			a.Resolved, a.Secret = "wrong", "000009"
		} else {
			a.Secret = ""
		}
	case "empty":
		a.Secret = ""
	case "recovery":
		a.Resolved = "wrong-recovery"
		a.Secret2 = "zzzzz-zzzzz"
		if sub != nil {
			if l := sub.live(sub.Recov); len(l) > 0 {
				a.Resolved, a.Secret2 = "recovery", l[s.R.Intn(len(l))]
			}
		}
	case "recovery_spent":
		a.Resolved, a.Secret2 = "wrong-recovery", "zzzzz-zzzzy"
		if sub != nil {
			for _, c := range sub.Recov {
				if c.State == Spent || c.State == Dead {
					a.Resolved, a.Secret2 = "recovery_spent", c.Val
				}
			}
		}
	case "recovery_other":
		a.Resolved, a.Secret2 = "wrong-recovery", "zzzzz-zzzzx"
		for _, o := range s.Accts {
			if sub != nil && o.PID == sub.PID {
				continue
			}
			if l := o.live(o.Recov); len(l) > 0 {
				a.Resolved, a.Secret2 = "recovery_other", l[0]
				break
			}
		}
	case "recovery_hash":
		a.Resolved, a.Secret2 = "wrong-recovery", "zzzzz-zzzzw"
		if sub != nil {
			if u := s.W.Store.Peek(sub.PID); u != nil && u.RecoveryCodes != "" {
				a.Resolved, a.Secret2 = "recovery_hash", strings.Split(u.RecoveryCodes, ",")[0]
			}
		}
	default:
		a.Resolved = "wrong"
		a.Secret = fmt.Sprintf("%06d", s.R.Intn(1000000))
	}
	if a.Secret != "" || a.Cls == "empty" || a.Cls == "sessionsecret" {
		f["code"] = a.Secret
	}
	if a.Secret2 != "" {
		f["recovery_code"] = a.Secret2
	}
}

func atoi(s string) int {
	n := 0
	for _, c := range s {
		if c >= '0' && c <= '9' {
			n = n*10 + int(c-'0')
		}
	}
	return n
}

func (s *Sim) lastSMSTo(number string) string {
	for i := len(s.W.SMSs) - 1; i >= 0; i-- {
		if s.W.SMSs[i].Number == number {
			return s.W.SMSs[i].Text
		}
	}
	return ""
}

// SMSSentToAny reports whether any code was ever delivered to number.
func (s *Sim) SMSSentToAny(number string) bool { return number != "" && s.lastSMSTo(number) != "" }

// SMSSentTo reports whether code was ever delivered to number.
func (s *Sim) SMSSentTo(number, code string) bool {
	if number == "" || code == "" {
		return false
	}
	for _, m := range s.W.SMSs {
		if m.Number == number && m.Text == code {
			return true
		}
	}
	return false
}

func (s *Sim) resolveEV(a *Action, bs *BState) (string, string) {
	sid := bs.B.Jar[world.SidCookie]
	var mine, others []*MailTok
	for i := len(s.Toks) - 1; i >= 0; i-- {
		t := s.Toks[i]
		if t.Kind != "ev" {
			continue
		}
		if t.B == a.B && t.Sid == sid {
			mine = append(mine, t)
		} else {
			others = append(others, t)
		}
	}
	switch a.Cls {
	case "current":
		if len(mine) > 0 {
			return mine[0].Token, "current"
		}
	case "othersession":
		if len(others) > 0 {
			return others[0].Token, "othersession"
		}
	case "old":
		if len(mine) > 1 {
			return mine[1].Token, "old"
		}
	case "empty", "absent":
		return "", a.Cls
	}
	return b64url([]byte(fmt.Sprintf("%016d", s.R.Int63()))), "garbage"
}

// SetTwoFA gives ledger account idx a second factor directly in storage (with three known
// recovery codes hashed at cost 4) or removes it.
func (s *Sim) SetTwoFA(idx int, totp, sms bool) {
	a := s.Accts[idx]
	u := s.W.Store.Peek(a.PID)
	u.TOTPSecretKey, u.SMSPhone, u.RecoveryCodes = "", "", ""
	a.Recov = nil
	if totp {
		u.TOTPSecretKey = newTOTPSecret(s.R)
	}
	if sms {
		u.SMSPhone = a.Phone
	}
	if totp || sms {
		var hashed []string
		for j := 0; j < 3; j++ {
			c := fmt.Sprintf("rk%d%dx-%05d", idx, j, s.R.Intn(100000))
			a.Recov = append(a.Recov, &Secret{Val: c})
			hashed = append(hashed, Hash4(c))
		}
		u.RecoveryCodes = strings.Join(hashed, ",")
	}
	s.W.Store.Put(u)
}

// SetConfirmed sets the stored confirmation flag of ledger account idx.
func (s *Sim) SetConfirmed(idx int, v bool) {
	u := s.W.Store.Peek(s.Accts[idx].PID)
	u.Confirmed = v
	s.W.Store.Put(u)
}
