package sim

import (
	"fmt"
	"math/rand"
	"sort"
	"strings"
	"time"

	"verif/world"
)

// Profile is the workload of one check: weights over the action alphabet, class distributions,
// directed templates interleaved with the random walk.
type Profile struct {
	W         map[string]int            // weight per action kind (only kinds enabled by the config are drawn)
	Cls       map[string]map[string]int // per action kind: class weights (overrides defaults)
	MinLen    int
	MaxLen    int
	Templates []Template
	TplProb   float64              // probability that a history starts with a template
	NoiseProb float64              // probability of a noise action between template steps
	Extra     func(s *Sim) *Action // check-specific action source (may return nil)
	ExtraProb float64
}

// Template produces a directed script for the current sim (may return nil if not applicable).
type Template struct {
	Name string
	F    func(s *Sim) []*Action
}

var defaultCls = map[string]map[string]int{
	"login":         {"ok": 45, "wrong": 14, "empty": 5, "other": 8, "stale": 5, "hash": 5, "near": 8, "cyc": 3, "nul": 2, "long": 2, "nonascii": 2},
	"otp_login":     {"ok": 40, "spent": 12, "dead": 8, "other": 10, "hash": 8, "password": 6, "empty": 6, "wrong": 10},
	"recover_end":   {"current": 40, "used": 8, "superseded": 8, "otheracct": 8, "bitflip": 8, "trunc": 4, "extend": 4, "trailing": 4, "stored": 6, "empty": 3, "garbage": 7},
	"confirm":       {"current": 40, "used": 8, "superseded": 8, "otheracct": 8, "bitflip": 8, "trunc": 4, "extend": 4, "trailing": 6, "stored": 6, "empty": 3, "garbage": 5},
	"oauth_cb":      {"own": 50, "empty": 6, "otherbrowser": 12, "spent": 12, "prefix": 5, "extended": 5, "caseflip": 5, "garbage": 5},
	"oauth_cb2":     {"validcode": 70, "badcode": 10, "othercode": 8, "error": 12},
	"totp_validate": {"ok": 40, "wrong": 12, "othertotp": 10, "stale": 8, "empty": 5, "emptysecret": 3, "blank": 2, "recovery": 10, "recovery_spent": 5, "recovery_other": 5, "recovery_hash": 5},
	"totp_confirm":  {"ok": 60, "wrong": 20, "othertotp": 10, "empty": 10},
	"totp_remove":   {"ok": 40, "wrong": 15, "othertotp": 10, "stale": 5, "empty": 5, "recovery": 10, "recovery_spent": 5, "recovery_other": 5, "recovery_hash": 5},
	"sms_validate":  {"ok": 35, "wrong": 10, "lastsms": 12, "ownsms": 10, "empty": 10, "sessionsecret": 3, "blank": 3, "recovery": 8, "recovery_spent": 4, "recovery_other": 4, "recovery_hash": 4},
	"sms_confirm":   {"ok": 50, "wrong": 15, "lastsms": 15, "ownsms": 10, "empty": 10},
	"sms_remove":    {"ok": 35, "wrong": 10, "lastsms": 12, "ownsms": 10, "empty": 10, "recovery": 8, "recovery_spent": 5, "recovery_other": 5, "recovery_hash": 5},
	"sms_setup":     {"own": 50, "other": 20, "fresh": 20, "empty": 10},
	"ev_end":        {"current": 50, "othersession": 12, "old": 10, "empty": 10, "absent": 8, "garbage": 10},
	"steal":         {"live": 40, "spent": 25, "revoked": 15, "garbage": 10, "none": 10},
	"newpw":         {"fresh": 55, "weak": 10, "same": 8, "long73": 5, "long72": 5, "long71": 4, "nonascii": 5, "nul": 4, "one": 4, "hashshaped": 5, "wsends": 5},
}

func (p *Profile) class(r *rand.Rand, kind string) string {
	m := defaultCls[kind]
	if o, ok := p.Cls[kind]; ok {
		m = o
	}
	keys := make([]string, 0, len(m))
	for k := range m {
		keys = append(keys, k)
	}
	sort.Strings(keys)
	return weighted(r, keys, m)
}

// Enabled reports whether the configuration makes an action kind meaningful.
func (s *Sim) Enabled(kind string) bool {
	c := s.Cfg
	switch kind {
	case "login":
		return c.Has("auth")
	case "otp_login", "otp_add", "otp_clear":
		return c.Has("otp")
	case "logout":
		return c.Has("logout")
	case "register":
		return c.Has("register")
	case "recover_start", "recover_end":
		return c.Has("recover")
	case "confirm", "admin_startconfirm":
		return c.Has("confirm")
	case "admin_lock", "admin_unlock":
		return c.Has("lock")
	case "oauth_start", "oauth_cb":
		return c.Has("oauth2") && len(c.Providers) > 0
	case "steal":
		return c.Has("remember")
	case "totp_setup", "totp_confirm_get", "totp_confirm", "totp_remove", "totp_validate":
		return c.Has2FA("totp")
	case "sms_setup", "sms_confirm", "sms_remove", "sms_validate":
		return c.Has2FA("sms")
	case "regen":
		return len(c.TwoFA) > 0
	case "ev_start", "ev_end":
		return len(c.TwoFA) > 0 && c.TwoFAEmail
	}
	return true
}

// Gaps is the set of clock advances worth trying for this configuration: both sides of every
// threshold the library compares against.
func (s *Sim) Gaps() []time.Duration {
	m := s.W.AB.Config.Modules
	g := []time.Duration{time.Second, 9 * time.Second, 10 * time.Second, 11 * time.Second, time.Minute}
	add := func(d time.Duration) {
		if d > 0 && d < 100*365*24*time.Hour {
			g = append(g, d-time.Nanosecond, d, d+time.Nanosecond, d-time.Second, d+time.Second, 3*d)
		}
	}
	if s.Cfg.Has("lock") {
		add(m.LockWindow)
		add(m.LockDuration)
	}
	if s.Cfg.UseExpire {
		add(m.ExpireAfter)
		g = append(g, m.ExpireAfter-2*time.Second, m.ExpireAfter/2)
	}
	if s.Cfg.Has("recover") {
		add(m.RecoverTokenDuration)
	}
	var out []time.Duration
	for _, d := range g {
		if d > 0 {
			out = append(out, d)
		}
	}
	return out
}

var pageRoutes = []string{"/login", "/otp/login", "/otp/add", "/otp/clear", "/register", "/recover", "/recover/end?token=abc",
	"/2fa/totp/setup", "/2fa/totp/confirm", "/2fa/totp/qr", "/2fa/totp/remove", "/2fa/totp/validate",
	"/2fa/sms/setup", "/2fa/sms/confirm", "/2fa/sms/remove", "/2fa/sms/validate", "/2fa/recovery/regen",
	"/2fa/totp/email/verify", "/2fa/sms/email/verify", "/nonexistent"}

var appRoutes = []string{"/public", "/cached", "/protected/plain", "/protected/full", "/protected/2fa", "/protected/lockonly", "/protected/confirmonly", "/protected/bare"}

var rawBodies = []string{`{`, `{"email":1,"password":true}`, `["a"]`, `null`, `email=%zz&password=%`, `email=a%00b&password=x`, ``, `{"email":"x","email":"y"}`, `\xff\xfe`, `{"email":{"a":"b"}}`}

// Next draws the next random-walk action.
func (p *Profile) Next(s *Sim) *Action {
	r := s.R
	if len(s.Pending) > 0 {
		a := s.Pending[0]
		s.Pending = s.Pending[1:]
		return a
	}
	if p.Extra != nil && r.Float64() < p.ExtraProb {
		if a := p.Extra(s); a != nil {
			return a
		}
	}
	var kinds []string
	for k, w := range p.W {
		if w > 0 && s.Enabled(k) {
			kinds = append(kinds, k)
		}
	}
	sort.Strings(kinds)
	kind := weighted(r, kinds, p.W)
	if kind == "" {
		kind = "visit"
	}
	return p.Make(s, kind)
}

// Make builds a random action of the given kind.
func (p *Profile) Make(s *Sim, kind string) *Action {
	r := s.R
	a := &Action{Kind: kind, B: r.Intn(len(s.Br)), A: -9, Opt: map[string]string{}}
	pickAcct := func(unknownPct int) int {
		x := r.Intn(100)
		switch {
		case x < unknownPct/2:
			return -1
		case x < unknownPct*3/4:
			return -2
		case x < unknownPct:
			return -3
		}
		return r.Intn(len(s.Accts))
	}
	redir := func() {
		if r.Intn(6) == 0 {
			a.Opt["redir"] = pick(r, "/after/login", "/x?y=1", "/deep/path/here")
		}
	}
	switch kind {
	case "login":
		a.A = pickAcct(10)
		a.Cls = p.class(r, "login")
		switch r.Intn(5) {
		case 0, 1:
			a.Opt["rm"] = "true"
		case 2:
			a.Opt["rm"] = pick(r, "false", "1", "TRUE", "yes")
		}
		redir()
	case "otp_login":
		a.A = pickAcct(10)
		a.Cls = p.class(r, "otp_login")
		if r.Intn(3) == 0 {
			a.Opt["rm"] = "true"
		}
		redir()
	case "otp_add", "otp_clear", "regen", "totp_setup", "totp_confirm_get":
	case "logout":
		if r.Intn(5) == 0 {
			a.Opt["method"] = pick(r, "GET", "POST", "DELETE", "PUT")
		}
	case "register":
		a.A = pickAcct(70)
		if a.A == -2 || a.A == -3 {
			a.A = -1
		}
		a.Cls2 = p.class(r, "newpw")
		if r.Intn(4) == 0 {
			a.Opt["extra"] = pick(r, "confirmed=true", "locked=2000-01-01", "oauth2_uid=x", "Password=plain", "totp_secret_key=AAAA", "name=Bob", "sms_phone_number=+1")
		}
	case "recover_start":
		a.A = pickAcct(20)
	case "recover_end":
		a.A = r.Intn(len(s.Accts))
		a.Cls = p.class(r, "recover_end")
		a.Cls2 = p.class(r, "newpw")
	case "confirm":
		a.A = r.Intn(len(s.Accts))
		a.Cls = p.class(r, "confirm")
		if r.Intn(8) == 0 {
			a.Opt["extraquery"] = "x=%zz"
		}
	case "admin_lock", "admin_unlock", "admin_startconfirm":
		a.A = r.Intn(len(s.Accts))
	case "admin_updatepw":
		a.A = r.Intn(len(s.Accts))
		a.Cls2 = p.class(r, "newpw")
		if a.Cls2 == "weak" || a.Cls2 == "one" {
			a.Cls2 = "fresh"
		}
	case "oauth_start":
		a.Opt["provider"] = s.Cfg.Providers[r.Intn(len(s.Cfg.Providers))]
		if r.Intn(3) == 0 {
			a.Opt["rm"] = "true"
		}
		if r.Intn(5) == 0 {
			a.Opt["redir"] = "/after/oauth"
		}
	case "oauth_cb":
		a.Opt["provider"] = s.Cfg.Providers[r.Intn(len(s.Cfg.Providers))]
		a.A = r.Intn(4)
		a.Cls = p.class(r, "oauth_cb")
		a.Cls2 = p.class(r, "oauth_cb2")
	case "totp_confirm", "totp_remove", "totp_validate", "sms_confirm", "sms_remove", "sms_validate":
		a.Cls = p.class(r, kind)
		a.Opt["own"] = fmt.Sprint(r.Intn(len(s.Accts)))
		if strings.HasSuffix(kind, "_validate") {
			redir()
		}
	case "sms_setup":
		a.Cls = p.class(r, "sms_setup")
	case "ev_start":
		a.Opt["kind"] = s.Cfg.TwoFA[r.Intn(len(s.Cfg.TwoFA))]
	case "ev_end":
		a.Opt["kind"] = s.Cfg.TwoFA[r.Intn(len(s.Cfg.TwoFA))]
		a.Cls = p.class(r, "ev_end")
	case "visit":
		a.Opt["route"] = appRoutes[r.Intn(len(appRoutes))]
		if r.Intn(8) == 0 {
			a.Opt["route"] = pick(r, world.PathLockNotOK, world.PathConfirmNotOK, "/", s.Cfg.Mount+"/app/page")
		}
		if r.Intn(6) == 0 {
			a.Opt["method"] = pick(r, "POST", "HEAD", "PUT", "DELETE")
		}
		if r.Intn(4) == 0 {
			a.Opt["route"] += "?q=" + pick(r, "1", "a%20b", "x&y=z")
		}
	case "get":
		a.Opt["route"] = pageRoutes[r.Intn(len(pageRoutes))]
	case "appset":
		a.Opt["k"] = pick(r, "app_theme", "app_lang", "app_cart", "app_uid", "app_twofactor_hint", "xhalfauthx")
		a.Opt["v"] = pick(r, "dark", "fr", "3-items")
	case "advance":
		g := s.Gaps()
		a.Opt["d"] = g[r.Intn(len(g))].String()
	case "steal":
		a.Cls = p.class(r, "steal")
	case "faultnext":
		if r.Intn(4) == 0 {
			// instead of a backend fault: the application's own After-event listener answers the next
			// request itself (or fails in it); queue a request that reaches an After event
			a.Kind = "hooknext"
			a.Opt["mode"] = pick(r, "handled", "handled", "error")
			kinds := []string{"login", "login", "otp_login", "totp_validate", "sms_validate", "logout", "register", "totp_confirm", "sms_confirm", "recover_end", "oauth_cb"}
			if k := kinds[r.Intn(len(kinds))]; s.Enabled(k) {
				f := p.Make(s, k)
				f.B = a.B
				switch k {
				case "recover_end":
					f.Cls, f.Cls2 = "current", "fresh"
				case "oauth_cb":
					f.Cls, f.Cls2 = "own", "validcode"
				case "register":
				default:
					f.Cls = "ok"
				}
				s.Pending = append(s.Pending, f)
			}
			return a
		}
		// one backend operation fails in the next request; queue a request in which that matters
		op := pick(r, "Save", "Save", "Load", "UseRememberToken", "AddRememberToken", "sms", "render", "hash", "Create", "SaveOAuth2", "DelRememberTokens", "LoadByRecoverSelector", "mailrender-txt", "mailrender")
		a.Opt["op"] = op
		b := a.B
		follow := func(k string) *Action { f := p.Make(s, k); f.B = b; return f }
		switch op {
		case "UseRememberToken", "AddRememberToken":
			if s.Enabled("steal") {
				st := follow("steal")
				// queue order: steal, then this fault, then the visit — the caller gets the steal first
				v := &Action{Kind: "visit", B: b, A: -9, Opt: map[string]string{"route": pick(r, "/public", "/protected/bare", "/protected/full")}}
				s.Pending = append(s.Pending, a, v)
				return st
			}
		case "sms":
			if s.Enabled("sms_validate") {
				f := follow("login")
				f.Cls = "ok"
				s.Pending = append(s.Pending, f)
			}
		case "Create":
			if s.Enabled("register") {
				s.Pending = append(s.Pending, follow("register"))
			}
		case "SaveOAuth2":
			if s.Enabled("oauth_cb") {
				f := follow("oauth_cb")
				f.Cls, f.Cls2 = "own", "validcode"
				s.Pending = append(s.Pending, f)
			}
		case "mailrender-txt", "mailrender":
			// a mail template fails (the text part only, or the first part): queue a request that mails a token
			kinds := []string{"recover_start", "recover_start", "admin_startconfirm", "register", "ev_start"}
			if k := kinds[r.Intn(len(kinds))]; s.Enabled(k) {
				s.Pending = append(s.Pending, follow(k))
			}
		case "LoadByRecoverSelector", "hash", "DelRememberTokens":
			if s.Enabled("recover_end") {
				f := follow("recover_end")
				f.Cls, f.Cls2 = "current", "fresh"
				s.Pending = append(s.Pending, f)
			}
		default:
			kinds := []string{"login", "login", "otp_login", "totp_validate", "sms_validate", "logout", "otp_add"}
			k := kinds[r.Intn(len(kinds))]
			if s.Enabled(k) {
				f := follow(k)
				if r.Intn(3) != 0 {
					f.Cls = "ok"
				}
				s.Pending = append(s.Pending, f)
			}
		}
	case "hooknext":
		a.Opt["mode"] = "handled" // (the failing variant is drawn as part of the fault noise, see "faultnext")
	case "dropsid":
	case "raw":
		a.Opt["method"] = pick(r, "POST", "POST", "GET", "DELETE", "PUT")
		a.Opt["route"] = pick(r, "/login", "/otp/login", "/register", "/recover", "/recover/end", "/2fa/totp/validate", "/2fa/sms/validate", "/logout", "/confirm")
		a.Opt["body"] = rawBodies[r.Intn(len(rawBodies))]
		a.Opt["ct"] = pick(r, "application/json", "application/x-www-form-urlencoded", "text/plain", "multipart/form-data; boundary=x")
	}
	return a
}
