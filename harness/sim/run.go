package sim

import (
	"fmt"
	"os"
	"sort"
)

// Violation is one refuting observation.
type Violation struct {
	Prop string `json:"prop"`
	Sig  string `json:"sig"` // stable signature: oracle clause + input class / call site
	Msg  string `json:"msg"`
	Step int    `json:"step"`
}

// Monitor judges steps online.
type Monitor interface {
	// Check is evaluated right after the request, against the ledger as it stood before it.
	Check(s *Sim, st *Step) []*Violation
	// Post is evaluated after the ledger learned from the step.
	Post(s *Sim, st *Step) []*Violation
	// Sig is the situation signature of the step for coverage accounting ("" = trivial).
	Sig(s *Sim, st *Step) string
}

// VioRec is a violation with what is needed to replay it.
type VioRec struct {
	Violation
	Index   int      `json:"index"`
	Cfg     string   `json:"cfg"`
	History []string `json:"history"`
	Detail  string   `json:"detail,omitempty"`
}

// Stats is the mergeable result of a worker.
type Stats struct {
	Evaluations  int               `json:"evaluations"`
	Histories    int               `json:"histories"`
	Sigs         map[string]int    `json:"sigs"`
	Counters     map[string]int    `json:"counters"`
	Samples      []interface{}     `json:"samples"`
	Violations   []VioRec          `json:"violations"`
	Inconclusive []string          `json:"inconclusive"`
	Notes        map[string]string `json:"notes"`
	// Known holds the signatures of open known findings: a step whose violations are all known is
	// recorded but does not end the history (so coverage behind a known defect is still explored).
	Known map[string]bool `json:"-"`
}

func NewStats() *Stats {
	return &Stats{Sigs: map[string]int{}, Counters: map[string]int{}, Notes: map[string]string{}}
}

func (st *Stats) Count(k string)      { st.Counters[k]++ }
func (st *Stats) Add(k string, n int) { st.Counters[k] += n }
func (st *Stats) Sig(s string) {
	if s != "" {
		st.Sigs[s]++
	}
}

func (st *Stats) Sample(v interface{}) {
	if len(st.Samples) < 3 {
		st.Samples = append(st.Samples, v)
	}
}

// Merge folds o into st.
func (st *Stats) Merge(o *Stats) {
	st.Evaluations += o.Evaluations
	st.Histories += o.Histories
	for k, v := range o.Sigs {
		st.Sigs[k] += v
	}
	for k, v := range o.Counters {
		st.Counters[k] += v
	}
	for _, s := range o.Samples {
		if len(st.Samples) < 4 {
			st.Samples = append(st.Samples, s)
		}
	}
	st.Violations = append(st.Violations, o.Violations...)
	st.Inconclusive = append(st.Inconclusive, o.Inconclusive...)
	for k, v := range o.Notes {
		st.Notes[k] = v
	}
}

// TopSigs lists up to n signatures, most frequent first (for evidence readability).
func (st *Stats) TopSigs(n int) []string {
	var ks []string
	for k := range st.Sigs {
		ks = append(ks, k)
	}
	sort.Slice(ks, func(i, j int) bool {
		if st.Sigs[ks[i]] != st.Sigs[ks[j]] {
			return st.Sigs[ks[i]] > st.Sigs[ks[j]]
		}
		return ks[i] < ks[j]
	})
	if len(ks) > n {
		ks = ks[:n]
	}
	out := make([]string, len(ks))
	for i, k := range ks {
		out[i] = fmt.Sprintf("%s ×%d", k, st.Sigs[k])
	}
	return out
}

// RunHistory drives one history: optional template first (interleaved with noise), then a random
// walk, every step judged by every monitor. It stops at the first violating step.
func RunHistory(s *Sim, p *Profile, mons []Monitor, stats *Stats, index int) {
	r := s.R
	n := p.MinLen
	if p.MaxLen > p.MinLen {
		n += r.Intn(p.MaxLen - p.MinLen + 1)
	}
	var script []*Action
	tpl := ""
	if only := os.Getenv("VERIF_ONLY_TEMPLATE"); only != "" && len(p.Templates) > 0 {
		// debugging aid: run only the named directed template in every history
		for _, t := range p.Templates {
			if t.Name == only {
				script = t.F(s)
				tpl = t.Name
			}
		}
	} else if len(p.Templates) > 0 && r.Float64() < p.TplProb {
		// go through the templates in a random order and take the first that applies to this configuration
		for _, k := range r.Perm(len(p.Templates)) {
			t := p.Templates[k]
			if script = t.F(s); script != nil {
				tpl = t.Name
				break
			}
		}
	}
	if script != nil {
		stats.Count("template:" + tpl)
	}
	stats.Histories++
	steps := 0
	for steps < n || len(script) > 0 {
		var a *Action
		if len(script) > 0 && !(r.Float64() < p.NoiseProb) {
			a, script = script[0], script[1:]
		} else {
			a = p.Next(s)
		}
		steps++
		if steps > n+60 {
			break
		}
		if !s.Enabled(a.Kind) {
			continue
		}
		st := s.Exec(a)
		stats.Evaluations++
		var vs []*Violation
		for _, m := range mons {
			vs = append(vs, m.Check(s, st)...)
			stats.Sig(m.Sig(s, st))
		}
		s.Learn(st)
		for _, m := range mons {
			vs = append(vs, m.Post(s, st)...)
		}
		if len(vs) > 0 {
			allKnown := true
			for _, v := range vs {
				v.Step = st.I
				if stats.Known[v.Sig] {
					stats.Counters["known:"+v.Sig]++
					if stats.Counters["known:"+v.Sig] > 3 {
						continue // keep a few witnesses per worker, count the rest
					}
				} else {
					allKnown = false
				}
				stats.Violations = append(stats.Violations, VioRec{Violation: *v, Index: index, Cfg: s.Cfg.String(), History: append([]string(nil), s.Hist...), Detail: Detail(st)})
			}
			if !allKnown {
				return
			}
		}
	}
	if index%7 == 0 {
		h := s.Hist
		if len(h) > 14 {
			h = h[:14]
		}
		stats.Sample(map[string]interface{}{"history_index": index, "config": s.Cfg, "template": tpl, "steps": h})
	}
}

func Detail(st *Step) string {
	r := st.Rec
	return fmt.Sprintf("%s %s body=%q status=%d loc=%q sessIn=%v sessOut=%v err=%q panic=%q calls=%v sesswrites=%v diff=%v",
		r.Method, r.Target, trunc(r.Body, 300), r.Status, r.Location, r.SessIn, r.SessOut, trunc(r.HandlerErr, 200), trunc(r.Panic, 200), r.Calls, r.SessWrites, r.Diff())
}
