package checks

import (
	"crypto/sha512"
	"encoding/base64"
	"fmt"
	"io"
	"net/http"
	"net/url"
	"regexp"
	"strings"
	"time"

	"verif/sim"
	"verif/world"
)

type c17mon struct {
	stats *sim.Stats
	typed map[string]string // every password-like string the harness typed → label
}

type secret struct {
	val   string
	label string
}

// secrets lists every secret string the ledger knows (>= 8 bytes).
func (m *c17mon) secrets(s *sim.Sim) []secret {
	var out []secret
	add := func(v, l string) {
		if len(v) >= 8 {
			out = append(out, secret{v, l})
		}
	}
	for _, a := range s.Accts {
		add(a.Pw, "password")
		for _, p := range a.OldPw {
			add(p, "old-password")
		}
		for _, o := range a.OTPs {
			add(o.Val, "one-time-password")
		}
		for _, r := range a.Recov {
			add(r.Val, "recovery-code")
		}
	}
	for v, l := range m.typed {
		add(v, l)
	}
	for _, c := range s.Cookies {
		add(c.Val, "remember-cookie")
		if raw, err := base64.URLEncoding.DecodeString(c.Val); err == nil && len(raw) > 33 {
			add(string(raw), "remember-token-raw")
			add(string(raw[len(raw)-32:]), "remember-nonce-raw")
			add(base64.StdEncoding.EncodeToString(raw), "remember-token-stdb64")
		}
	}
	for _, t := range s.Toks {
		add(t.Token, t.Kind+"-token")
		if esc := url.QueryEscape(t.Token); esc != t.Token {
			add(esc, t.Kind+"-token-urlescaped") // the spelling the mailed link carries ('=' as %3D)
		}
		if raw, err := base64.URLEncoding.DecodeString(t.Token); err == nil && len(raw) >= 16 {
			add(string(raw), t.Kind+"-token-raw")
			add(base64.StdEncoding.EncodeToString(raw), t.Kind+"-token-stdb64")
			add(strings.TrimRight(t.Token, "="), t.Kind+"-token")
		}
	}
	return out
}

var logPrefix = regexp.MustCompile(`\[(INFO|EROR)\]: ([A-Za-z .,']{0,60})`)

func logShape(line string) string {
	if m := logPrefix.FindStringSubmatch(line); m != nil {
		w := strings.Fields(m[2])
		if len(w) > 6 {
			w = w[:6]
		}
		return strings.Join(w, "-")
	}
	return "unrecognised-line"
}

func (m *c17mon) Check(s *sim.Sim, st *sim.Step) []*sim.Violation { return nil }

// Post runs after the ledger learned this step's secrets (a token mailed by this very request
// must not be in this request's log either).
func (m *c17mon) Post(s *sim.Sim, st *sim.Step) []*sim.Violation {
	a, rec := st.Act, st.Rec
	switch a.Kind {
	case "login", "register":
		if len(a.Secret) >= 8 {
			m.typed[a.Secret] = "typed-password"
		}
	case "recover_end":
		if len(a.Secret2) >= 8 {
			m.typed[a.Secret2] = "typed-password"
		}
	case "admin_updatepw":
		if len(a.Secret) >= 8 {
			m.typed[a.Secret] = "typed-password"
		}
	}
	var vs []*sim.Violation
	secs := m.secrets(s)
	m.stats.Add("secret-comparisons", len(secs)*(len(rec.Logs)+len(rec.Diff())))
	// (a) storage: every changed field and every created record
	scan := func(pid, field, val string) {
		if val == "" {
			return
		}
		for _, sc := range secs {
			if strings.Contains(val, sc.val) {
				if (sc.label == "remember-token-raw") && field == "PID" {
					continue
				}
				vs = append(vs, vio("C17", "plaintext-in-storage|"+sc.label+"|"+strings.SplitN(field, ".", 2)[0], "stored field %s of %q contains a %s in plaintext", field, pid, sc.label))
				return
			}
		}
	}
	for _, d := range rec.Diff() {
		switch d.Field {
		case "<created>":
			for f, v := range rec.After.Users[d.PID].Fields() {
				if f != "PID" && f != "Email" {
					scan(d.PID, f, v)
				}
			}
		case "token+":
			scan(d.PID, "remember-token-row", d.New)
		default:
			scan(d.PID, d.Field, d.New)
		}
		if d.Field == "Password" || d.Field == "<created>" {
			if u := rec.After.Users[d.PID]; u != nil && u.Password != "" && !sim.LooksBcrypt(u.Password) {
				vs = append(vs, vio("C17", "password-not-hashed", "stored password of %q is not a bcrypt hash", d.PID))
			}
		}
	}
	m.stats.Add("stored-fields-scanned", len(rec.Diff()))
	// (b) log lines of this request
	for _, line := range rec.Logs {
		m.stats.Count("log-lines-scanned")
		// tokens the harness has never been shown (their mail was never sent, e.g. because a template
		// failed) are recognised by what storage holds about them: anything in the line that decodes to 64
		// bytes whose first half hashes to a stored confirm/recover selector, or that equals the 2FA e-mail
		// token a session holds, is a live mailed-token-to-be
		if kind, pid := liveTokenIn(s, rec, line); kind != "" {
			vs = append(vs, vio("C17", "secret-in-log|"+kind+"-token-never-mailed|"+logShape(line), "log line contains the live %s token of %q (recognised through the stored selector / the session's copy): %s", kind, pid, trunc(line, 200)))
		}
		for _, sc := range secs {
			if strings.Contains(line, sc.val) {
				vs = append(vs, vio("C17", "secret-in-log|"+sc.label+"|"+logShape(line), "log line contains a %s: %s", sc.label, redact(line, sc.val)))
				break
			}
		}
	}
	// (a') the server-side session store is storage too: no value a session holds after the request contains
	// a password, a one-time / recovery code or a mailed token in plaintext
	if rec.Kind == "http" {
		for _, bs := range s.Br {
			sess := s.W.Sess.Of(bs.B)
			for _, k := range world.SortedKeys(sess) {
				v := sess[k]
				if len(v) < 8 {
					continue
				}
				for _, sc := range secs {
					if strings.HasPrefix(sc.label, "remember-") || strings.HasPrefix(sc.label, "ev-") {
						// the cookie is the client's to hold (its parts are judged in the token rows); the 2FA
						// e-mail-verification token is kept in the session by design (compared with the link when
						// it comes back) and is not among the kinds the storage clause lists
						continue
					}
					if strings.Contains(v, sc.val) {
						vs = append(vs, vio("C17", "plaintext-in-session-store|"+sc.label+"|"+k, "after the request the session of b%d holds a %s in plaintext under key %q", bs.B.ID, sc.label, k))
						break
					}
				}
			}
		}
		m.stats.Count("session-stores-scanned")
	}
	// (c) mailed tokens only go to the account's own addresses
	for _, ml := range rec.Mails {
		m.stats.Count("mails-checked")
		// every token string this mail carries: the one issued by this request and — should the library
		// ever re-send a string it mailed before — the accounts that string was mailed for earlier
		seenPID := map[string]bool{}
		for _, tok := range s.Toks {
			if tok.Token == "" || !strings.Contains(ml.Email.TextBody+ml.Email.HTMLBody, strings.TrimRight(tok.Token, "=")) || seenPID[tok.PID] {
				continue
			}
			seenPID[tok.PID] = true
			u := rec.After.Users[tok.PID]
			if u == nil {
				vs = append(vs, vio("C17", "token-mailed-for-unknown-account", "a mail carrying a %s token was sent to %v but belongs to no stored account", tok.Kind, ml.Email.To))
				continue
			}
			allowed := map[string]bool{u.Email: true}
			for _, e := range u.Secondary {
				allowed[e] = true
			}
			for _, to := range ml.Email.To {
				if !allowed[to] {
					vs = append(vs, vio("C17", "token-mailed-to-foreign-address|"+tok.Kind, "a %s token of %q was mailed to %q", tok.Kind, tok.PID, to))
				}
			}
			if len(ml.Email.Cc)+len(ml.Email.Bcc) > 0 {
				vs = append(vs, vio("C17", "token-mail-has-cc-bcc", "a token mail carries Cc/Bcc recipients %v %v", ml.Email.Cc, ml.Email.Bcc))
			}
		}
	}
	return vs
}

func redact(line, sec string) string {
	return strings.ReplaceAll(trunc(line, 260), sec, "«"+fmt.Sprintf("%d secret bytes", len(sec))+"»")
}

func (m *c17mon) Sig(s *sim.Sim, st *sim.Step) string {
	rec := st.Rec
	if len(rec.Logs) == 0 && len(rec.Diff()) == 0 {
		return ""
	}
	var shapes []string
	seen := map[string]bool{}
	for _, l := range rec.Logs {
		sh := logShape(l)
		if !seen[sh] {
			seen[sh] = true
			shapes = append(shapes, sh)
		}
	}
	if len(shapes) > 3 {
		shapes = shapes[:3]
	}
	var fields []string
	for _, d := range rec.Diff() {
		if !seen["f:"+d.Field] {
			seen["f:"+d.Field] = true
			fields = append(fields, d.Field)
		}
	}
	return fmt.Sprintf("%s/%s/logs=%s/fields=%s", st.Act.Kind, st.Act.Resolved, strings.Join(shapes, ","), strings.Join(fields, ","))
}

var c17Templates = []sim.Template{
	{Name: "recovery-requested-under-a-look-alike-spelling", F: func(s *sim.Sim) []*sim.Action {
		// the recover form is filled in with another spelling of the address (capital first letter; the
		// long s 'ſ' / Kelvin sign 'K', which lower-case to plain letters): if the storer's lookup finds
		// the account all the same, the mail still goes to the account's own address
		if !s.Cfg.Has("recover") {
			return nil
		}
		v := s.R.Intn(len(s.Accts))
		return []*sim.Action{act("recover_start", 0, v, "", "spell", pickS(s.R, "upper", "kelvin", "kelvin")), act("recover_start", 1, v, "", "spell", "upper")}
	}},
	{Name: "mail-template-fails-after-the-link-was-rendered", F: func(s *sim.Sim) []*sim.Action {
		// the text part of a token mail fails to render when the HTML part — with the link — is already
		// there; or the first part fails; or the mailer does: whatever gets logged then, it is not the token
		var sc []*sim.Action
		op := func() *sim.Action {
			return act("faultnext", 0, -9, "", "op", pickS(s.R, "mailrender-txt", "mailrender-txt", "mailrender", "mail"))
		}
		if s.Cfg.Has("recover") {
			sc = append(sc, op(), act("recover_start", 0, s.R.Intn(len(s.Accts)), ""))
		}
		if s.Cfg.Has("confirm") {
			sc = append(sc, op(), act("admin_startconfirm", 0, s.R.Intn(len(s.Accts)), ""))
		}
		if s.Cfg.TwoFAEmail && s.Cfg.Has("auth") {
			if v := findAcct(s, func(u *world.User) bool { return u.TOTPSecretKey == "" && u.SMSPhone == "" && u.Confirmed }); v >= 0 {
				sc = append(sc, act("login", 1, v, "ok"), op(), act("ev_start", 1, -9, "", "kind", s.Cfg.TwoFA[0]))
			}
		}
		return sc
	}},
	{Name: "two-accounts-request-the-2fa-mail-in-one-session", F: func(s *sim.Sim) []*sim.Action {
		// each account's verification mail carries a token of its own: what was mailed to the first
		// account never turns up in the mail to the second
		if !s.Cfg.TwoFAEmail || !s.Cfg.Has("auth") {
			return nil
		}
		free := func(u *world.User) bool { return u.TOTPSecretKey == "" && u.SMSPhone == "" && u.Confirmed }
		v := findAcct(s, free)
		x := findAcct(s, free, v)
		if v < 0 || x < 0 {
			return nil
		}
		k := s.Cfg.TwoFA[s.R.Intn(len(s.Cfg.TwoFA))]
		sc := []*sim.Action{act("login", 0, v, "ok"), act("ev_start", 0, -9, "", "kind", k)}
		if s.R.Intn(2) == 0 {
			sc = append(sc, act("ev_start", 0, -9, "", "kind", k)) // asked twice
		}
		sc = append(sc, act("login", 0, x, "ok"), act("ev_start", 0, -9, "", "kind", k), act("ev_end", 0, -9, "current", "kind", k))
		return sc
	}},
	{Name: "near-valid-confirm-token", F: func(s *sim.Sim) []*sim.Action {
		if !s.Cfg.Has("confirm") {
			return nil
		}
		v := s.R.Intn(len(s.Accts))
		c1 := act("confirm", 1, v, "trailing")
		c2 := act("confirm", 1, v, "current", "extraquery", "x=%zz")
		return []*sim.Action{act("admin_startconfirm", 0, v, ""), c1, c2, act("confirm", 1, v, "current")}
	}},
	{Name: "near-valid-recover-token", F: func(s *sim.Sim) []*sim.Action {
		if !s.Cfg.Has("recover") {
			return nil
		}
		v := s.R.Intn(len(s.Accts))
		e1 := act("recover_end", 1, v, "trailing")
		e1.Cls2 = "fresh"
		e2 := act("recover_end", 1, v, "current")
		e2.Cls2 = pickS(s.R, "weak", "long73", "fresh")
		e3 := act("recover_end", 1, v, "current")
		e3.Cls2 = "fresh"
		return []*sim.Action{act("recover_start", 0, v, ""), e1, act("get", 1, -9, "", "route", "/recover/end?token=abc&x=%zz"), e2, e3}
	}},
	{Name: "mailed-2fa-link-opened-elsewhere", F: func(s *sim.Sim) []*sim.Action {
		if !s.Cfg.TwoFAEmail || !s.Cfg.Has("auth") {
			return nil
		}
		v := findAcct(s, func(u *world.User) bool { return u.TOTPSecretKey == "" && u.SMSPhone == "" && u.Confirmed })
		if v < 0 {
			return nil
		}
		k := s.Cfg.TwoFA[s.R.Intn(len(s.Cfg.TwoFA))]
		// the link from the mail is opened on another device, after logout, and finally where it belongs
		return []*sim.Action{act("login", 0, v, "ok"), act("ev_start", 0, -9, "", "kind", k), act("ev_end", 1, -9, "othersession", "kind", k),
			act("logout", 0, -9, ""), act("ev_end", 0, -9, "current", "kind", k), act("login", 0, v, "ok"), act("ev_end", 0, -9, "current", "kind", k)}
	}},
	{Name: "mailed-links-opened-with-broken-requests", F: func(s *sim.Sim) []*sim.Action {
		if !s.Cfg.Has("recover") {
			return nil
		}
		v := s.R.Intn(len(s.Accts))
		return []*sim.Action{act("recover_start", 0, v, ""), act("open_link", 1, -9, "", "tok", "recover", "where", "recover_end_get"), act("open_link", 1, -9, "", "tok", "recover", "where", "recover_end_get", "broken", "1"),
			act("open_link", 1, -9, "", "tok", "recover", "where", "protected"), act("open_link", 1, -9, "", "tok", "recover", "where", "/otp/add"), act("open_link", 1, -9, "", "tok", "recover", "where", "/2fa/recovery/regen")}
	}},
	{Name: "rotation-with-backend-fault", F: func(s *sim.Sim) []*sim.Action {
		if !s.RememberActive() || !s.Cfg.Has("auth") {
			return nil
		}
		v := findAcct(s, func(u *world.User) bool { return u.TOTPSecretKey == "" && u.SMSPhone == "" && u.Confirmed })
		if v < 0 {
			return nil
		}
		op := pickS(s.R, "AddRememberToken", "UseRememberToken", "Save", "Load")
		return []*sim.Action{act("login", 0, v, "ok", "rm", "true"), act("dropsid", 0, -9, ""), act("faultnext", 0, -9, "", "op", op), act("visit", 0, -9, "", "route", "/public"),
			act("visit", 0, -9, "", "route", "/protected/bare"), act("faultnext", 0, -9, "", "op", pickS(s.R, "Save", "AddRememberToken", "hash")), act("login", 1, v, "ok", "rm", "true")}
	}},
	{Name: "genuine-secrets-in-an-ill-formed-json-document", F: func(s *sim.Sim) []*sim.Action {
		if !s.Cfg.JSON || !s.Cfg.Has("auth") {
			return nil
		}
		v := s.R.Intn(len(s.Accts))
		sc := []*sim.Action{act("login", 0, v, "ok", "breakjson", "bool"), act("login", 0, v, "ok", "breakjson", "comma")}
		if s.Cfg.Has("recover") {
			e := act("recover_end", 1, v, "current", "breakjson", pickS(s.R, "comma", "number"))
			e.Cls2 = "fresh"
			sc = append(sc, act("recover_start", 1, v, ""), e)
		}
		if s.Cfg.Has("otp") {
			sc = append(sc, act("login", 0, v, "ok"), act("otp_add", 0, -9, ""), act("otp_login", 1, v, "ok", "breakjson", "bool"))
		}
		if s.Cfg.Has("register") {
			sc = append(sc, act("register", 2, -9, "", "breakjson", "comma"))
		}
		return sc
	}},
	{Name: "recovery-form-submitted-from-the-mailed-link-ends-in-an-error", F: func(s *sim.Sim) []*sim.Action {
		if !s.Cfg.Has("recover") {
			return nil
		}
		v := s.R.Intn(len(s.Accts))
		ref := "Referer: https://site.test{mount}/recover/end?token={secret}"
		// the browser names the page the form came from — the mailed link — as Referer; the submission fails
		// (a pass-phrase bcrypt refuses, a storage fault), then succeeds
		e1 := act("recover_end", 1, v, "current", "hdr", ref)
		e1.Cls2 = "long73"
		e2 := act("recover_end", 1, v, "current", "hdr", ref)
		e2.Cls2 = "fresh"
		e3 := act("recover_end", 1, v, "current", "hdr", ref)
		e3.Cls2 = "fresh"
		return []*sim.Action{act("recover_start", 1, v, ""), e1, act("faultnext", 1, -9, "", "op", pickS(s.R, "Save", "LoadByRecoverSelector", "hash")), e2, e3}
	}},
	{Name: "secret-typed-into-the-code-field", F: func(s *sim.Sim) []*sim.Action {
		if !s.Cfg.Has("auth") || len(s.Cfg.TwoFA) == 0 {
			return nil
		}
		kind := s.Cfg.TwoFA[s.R.Intn(len(s.Cfg.TwoFA))]
		v := findAcct(s, func(u *world.User) bool {
			return u.Confirmed && u.RecoveryCodes != "" && ((kind == "totp" && u.TOTPSecretKey != "") || (kind == "sms" && u.SMSPhone != "" && u.TOTPSecretKey == ""))
		})
		if v < 0 {
			return nil
		}
		k := kind + "_validate"
		return []*sim.Action{act("login", 0, v, "ok"), act(k, 0, -9, "wrongfield", "what", "recovery"), act(k, 0, -9, "wrongfield", "what", "password"), act(k, 0, -9, "ok"),
			act(kind+"_remove", 0, -9, "wrongfield", "what", "recovery"), act(kind+"_remove", 0, -9, "wrongfield", "what", "password")}
	}},
	{Name: "all-secret-kinds", F: func(s *sim.Sim) []*sim.Action {
		if !s.Cfg.Has("auth") {
			return nil
		}
		v := findAcct(s, func(u *world.User) bool { return u.TOTPSecretKey == "" && u.SMSPhone == "" && u.Confirmed })
		if v < 0 {
			return nil
		}
		sc := []*sim.Action{act("login", 0, v, "near"), act("login", 0, v, "ok", "rm", "true"), act("otp_add", 0, -9, ""), act("otp_login", 1, v, "ok"), act("otp_login", 1, v, "spent"),
			act("dropsid", 0, -9, ""), act("visit", 0, -9, "", "route", "/protected/plain"), act("steal", 2, -9, "spent"), act("visit", 2, -9, "", "route", "/public")}
		return sc
	}},
}

// smtpLeakProbe: "mailed tokens leave the system only in the e-mail addressed to the account", through the
// shipped SMTPMailer against a relay that refuses one recipient: the victim's recovery mail fails at RCPT, the
// next account's recovery mail goes through — every token in a delivered message belongs (by the selector
// hash storage holds) to an account that message is addressed to.
func smtpLeakProbe(seed int64, rounds int) (verdict, detail string, mails int) {
	srv, err := newC20Server(seed, true, false, false)
	if err != nil {
		return "inconclusive", err.Error(), 0
	}
	defer srv.close()
	post := func(pid string) {
		hc := &http.Client{CheckRedirect: func(*http.Request, []*http.Request) error { return http.ErrUseLastResponse }, Timeout: 30 * time.Second}
		req, _ := http.NewRequest("POST", srv.srv.URL+"/auth/recover", strings.NewReader(url.Values{"email": {pid}}.Encode()))
		req.Header.Set("Content-Type", "application/x-www-form-urlencoded")
		if resp, err := hc.Do(req); err == nil {
			io.Copy(io.Discard, resp.Body)
			resp.Body.Close()
		}
	}
	for n := 0; n < rounds; n++ {
		victim, other := fmt.Sprintf("victim%d@site.test", n), fmt.Sprintf("other%d@site.test", n)
		for _, p := range []string{victim, other} {
			srv.store.Put(&world.User{PID: p, Email: p, Password: sim.Hash4("Sm7p!passw"), Confirmed: true})
		}
		srv.smtp.mu.Lock()
		srv.smtp.failRcpt = victim
		before := srv.smtp.failed
		srv.smtp.mu.Unlock()
		post(victim)
		ok := false
		for i := 0; i < 2000 && !ok; i++ { // the mail goroutine reaches the relay and is refused
			srv.smtp.mu.Lock()
			ok = srv.smtp.failed > before
			srv.smtp.mu.Unlock()
			if !ok {
				time.Sleep(5 * time.Millisecond)
			}
		}
		if !ok {
			return "inconclusive", "the relay never saw the mail it was to refuse", mails
		}
		post(other)
		ok = false
		for i := 0; i < 2000 && !ok; i++ {
			ok = strings.Contains(srv.smtp.all(), "To: "+other)
			if !ok {
				time.Sleep(5 * time.Millisecond)
			}
		}
		if !ok {
			return "inconclusive", "the second mail never reached the relay", mails
		}
	}
	srv.smtp.mu.Lock()
	msgs, envs := append([]string(nil), srv.smtp.msgs...), append([]string(nil), srv.smtp.envs...)
	srv.smtp.mu.Unlock()
	for mi, msg := range msgs {
		mails++
		env := envs[mi]
		body := strings.ReplaceAll(strings.ReplaceAll(msg, "=\r\n", ""), "=3D", "=")
		for _, m := range reMailURL.FindAllStringSubmatch(body, -1) {
			tok, _ := url.QueryUnescape(m[2])
			raw, err := base64.URLEncoding.DecodeString(tok)
			if err != nil || len(raw) != 64 {
				continue
			}
			sel := sha512.Sum512(raw[:32])
			selector := base64.StdEncoding.EncodeToString(sel[:])
			owner := ""
			for _, u := range srv.store.Snapshot().Users {
				if u.RecoverSelector == selector {
					owner = u.PID
				}
			}
			if owner != "" && !strings.Contains(","+env+",", ","+strings.ToLower(owner)+",") {
				to := env
				return "violated", fmt.Sprintf("a message the relay accepted for %q carries the live recovery token of %q (whose own mail the relay had refused)", to, owner), mails
			}
		}
	}
	return "held", "", mails
}

func init() {
	prof := &sim.Profile{W: map[string]int{}, MinLen: 25, MaxLen: 55, Templates: c17Templates, TplProb: 0.5, NoiseProb: 0.1}
	for k, v := range c01Profile.W {
		prof.W[k] = v
	}
	prof.W["confirm"], prof.W["recover_end"], prof.W["recover_start"], prof.W["admin_startconfirm"], prof.W["otp_add"], prof.W["regen"] = 8, 9, 6, 4, 8, 2
	register(&Check{
		ID: "C17", Level: "exploration",
		Rule:  "mixed histories over all flows and module subsets (the C01 generator) with extra weight on near-valid submissions — a valid token followed by one stray character, a valid token in a URL with a broken percent-escape elsewhere — because those make a library log what it received; a live recovery code or the password typed into the CODE field of the 2FA validate/remove pages. Secret ledger: every password the harness seeded or typed (incl. wrong ones), every OTP and recovery code shown or seeded, every remember cookie value plus its decoded token, nonce and std-base64 form, every mailed token in URL form, std-base64 form and decoded bytes (all >= 8 bytes). After every request: substring search of every changed/created stored field and new token row, and of every log line the request produced (shipped defaults.Logger); every stored password must be bcrypt-shaped; every mail carrying a token — including a string that was mailed before — must be addressed only to the addresses of every account that string was ever mailed for. After every request every value of every server-side session is searched for the ledger's passwords, one-time / recovery codes and confirm / recover tokens too (the 2FA e-mail-verification token is kept there by design and excluded). Every 100th unit runs the shipped SMTPMailer against a relay that refuses one recipient: every token in a message the relay accepted belongs (selector hash in storage) to an envelope recipient of that message. The recovery form is also submitted with the mailed link as Referer and ends in an error; every token is searched in its percent-escaped spelling too. distinct_nontrivial = distinct (action, class, log line shapes, fields changed) signatures.",
		Units: func(t string) int { return tierN(t, 600, 25000) },
		Run: func(c *RunCtx, unit int) {
			if unit%100 == 0 {
				// "mailed tokens leave the system only in the e-mail addressed to the account": two accounts
				// never get the same token, however many requests mint tokens at once
				if msg, n := tokenBurst(32, 3000); msg != "" {
					c.Stats.Violations = append(c.Stats.Violations, sim.VioRec{Violation: *vio("C17", "one-time-token-generator-under-concurrency", "%s", msg), Index: unit})
				} else {
					c.Stats.Add("tokens-generated-in-parallel", n)
				}
			}
			if unit%100 == 50 {
				switch v, d, n := smtpLeakProbe(c.Seed*1000+int64(unit), 6); v {
				case "violated":
					c.Stats.Violations = append(c.Stats.Violations, sim.VioRec{Violation: *vio("C17", "token-mailed-to-foreign-address|recover|smtp-mailer-after-a-refused-delivery", "%s", d), Index: unit})
					return
				case "held":
					c.Stats.Add("smtp-messages-checked-after-refused-deliveries", n)
				default:
					c.Stats.Inconclusive = append(c.Stats.Inconclusive, "smtp leak probe: "+d)
					return
				}
			}
			r := Rng(c.Seed, "C17", unit)
			cfg := randomCfg(r, "auth")
			cfg.FoldPIDs = unit%3 == 0 // the user table is looked up case-insensitively
			if unit%3 == 1 {
				// an application that trusts the register whitelist: its user type stores the whole map
				// PutArbitrary hands it, and the whitelist names profile fields only (or nothing at all)
				cfg.RegWhitelist = [][]string{{}, {"name"}, {"name", "nick"}}[(unit/3)%3]
				cfg.PersistArbitrary = true
			}
			s, err := sim.New(cfg, r, sim.SeedOpt{Accounts: 3, Browsers: 3, TwoFAProb: 0.3, Unconfirmed: 0.2})
			if err != nil {
				c.Stats.Inconclusive = append(c.Stats.Inconclusive, "world: "+err.Error())
				return
			}
			sim.RunHistory(s, prof, []sim.Monitor{&c17mon{stats: c.Stats, typed: map[string]string{}}}, c.Stats, unit)
		},
		Floors: func(t string) map[string]int {
			return map[string]int{"log-lines-scanned": 10000, "mails-checked": 300, "stored-fields-scanned": 3000, "template:near-valid-confirm-token": 10, "template:near-valid-recover-token": 10}
		},
		Assumptions: []string{"only secrets of >= 8 bytes are searched for (SMS codes are 6 digits; coincidental hits would be noise); TOTP secrets are stored in clear by design and are not in the property's list", "the logger is the shipped defaults.Logger writing to a capture buffer"},
	})
}

var reTokenish = regexp.MustCompile(`[A-Za-z0-9_-]{40,}`)

// liveTokenIn looks for a currently valid confirm / recover / 2FA-e-mail token in a log line without
// knowing the token: candidates are recognised through the selector hash storage keeps, or through
// the copy the session keeps.
func liveTokenIn(s *sim.Sim, rec *world.Rec, line string) (kind, pid string) {
	if un, err := url.QueryUnescape(line); err == nil {
		line += " " + un
	}
	for _, c := range reTokenish.FindAllString(line, -1) {
		for _, snap := range []*world.Snapshot{rec.Before, rec.After} {
			if snap == nil {
				continue
			}
			if len(c) >= 86 {
				if raw, err := base64.RawURLEncoding.DecodeString(c[:86]); err == nil && len(raw) == 64 {
					h := sha512.Sum512(raw[:32])
					sel := base64.StdEncoding.EncodeToString(h[:])
					for p, u := range snap.Users {
						if u.ConfirmSelector == sel {
							return "confirm", p
						}
						if u.RecoverSelector == sel {
							return "recover", p
						}
					}
				}
			}
		}
		for _, bs := range s.Br {
			if t := s.W.Sess.Of(bs.B)["twofactor_auth_token"]; t != "" && strings.TrimRight(t, "=") == c {
				return "2fa-email", s.W.Sess.Of(bs.B)["twofactor_authed_pid"]
			}
		}
	}
	return "", ""
}
