package checks

import (
	"fmt"
	"math/rand"
	"net/url"
	"regexp"
	"sort"
	"strings"

	"github.com/volatiletech/authboss/v3/defaults"
	"verif/sim"
	"verif/world"
)

// --- independent evaluator of defaults.Rules on ASCII strings ---

type ruleSpec struct {
	Required        bool
	Match           string // "" | "email" | "user"
	MinLen, MaxLen  int
	MinLetters      int
	MinLower, MinUp int
	MinNum, MinSym  int
	AllowWS         bool
}

func asciiWS(c byte) bool { return c == ' ' || (c >= '\t' && c <= '\r') }

func emailLike(s string) bool { // .*@.*\.[a-z]+ unanchored, '.' not matching newline
	for p := 0; p < len(s); p++ {
		if s[p] != '@' {
			continue
		}
		for q := p + 1; q < len(s); q++ {
			if s[q] == '\n' {
				break
			}
			if s[q] == '.' && q+1 < len(s) && s[q+1] >= 'a' && s[q+1] <= 'z' {
				return true
			}
		}
	}
	return false
}

func userLike(s string) bool { // (?i)[a-z][a-z0-9]? unanchored
	for i := 0; i < len(s); i++ {
		if c := s[i] | 0x20; c >= 'a' && c <= 'z' {
			return true
		}
	}
	return false
}

func (r ruleSpec) valid(s string) bool {
	blank := true
	for i := 0; i < len(s); i++ {
		if c := s[i]; !(c == ' ' || c == '\t' || c == '\n' || c == '\f' || c == '\r') {
			blank = false
		}
	}
	if r.Required && blank {
		return false
	}
	switch r.Match {
	case "email":
		if !emailLike(s) {
			return false
		}
	case "user":
		if !userLike(s) {
			return false
		}
	}
	if (r.MinLen > 0 && len(s) < r.MinLen) || (r.MaxLen > 0 && len(s) > r.MaxLen) {
		return false
	}
	var up, lo, nu, sy, ws int
	for i := 0; i < len(s); i++ {
		c := s[i]
		switch {
		case c >= 'A' && c <= 'Z':
			up++
		case c >= 'a' && c <= 'z':
			lo++
		case c >= '0' && c <= '9':
			nu++
		case asciiWS(c):
			ws++
		default:
			sy++
		}
	}
	if up+lo < r.MinLetters || up < r.MinUp || lo < r.MinLower || nu < r.MinNum || sy < r.MinSym {
		return false
	}
	if !r.AllowWS && ws > 0 {
		return false
	}
	return true
}

var reEmail = regexp.MustCompile(`.*@.*\.[a-z]+`)
var reUser = regexp.MustCompile(`(?i)[a-z][a-z0-9]?`)

func (r ruleSpec) real() defaults.Rules {
	out := defaults.Rules{FieldName: "f", Required: r.Required, MinLength: r.MinLen, MaxLength: r.MaxLen, MinLetters: r.MinLetters, MinLower: r.MinLower,
		MinUpper: r.MinUp, MinNumeric: r.MinNum, MinSymbols: r.MinSym, AllowWhitespace: r.AllowWS, MatchError: "no match"}
	switch r.Match {
	case "email":
		out.MustMatch = reEmail
	case "user":
		out.MustMatch = reUser
	}
	return out
}

const asciiPool = "abcXYZ019 !@.-_\t\n#$%^&*()~`'\"\\/;:<>?,[]{}|+=\x00\x7f\x0b"

func genASCII(r *rand.Rand, max int) string {
	n := r.Intn(max + 1)
	b := make([]byte, n)
	for i := range b {
		switch r.Intn(4) {
		case 0:
			b[i] = byte('a' + r.Intn(26))
		case 1:
			b[i] = byte('A' + r.Intn(26))
		case 2:
			b[i] = byte('0' + r.Intn(10))
		default:
			b[i] = asciiPool[r.Intn(len(asciiPool))]
		}
	}
	return string(b)
}

func c19Policy(c *RunCtx, r *rand.Rand, n int) bool {
	small := func() int {
		if r.Intn(3) == 0 {
			return 0
		}
		return r.Intn(5)
	}
	for i := 0; i < n; i++ {
		rs := ruleSpec{Required: r.Intn(2) == 0, Match: pickS(r, "", "", "email", "user"), MinLen: small() * 2, MaxLen: 0, MinLetters: small(), MinLower: small(), MinUp: small(), MinNum: small(), MinSym: small(), AllowWS: r.Intn(2) == 0}
		if r.Intn(3) == 0 {
			rs.MaxLen = rs.MinLen + r.Intn(12)
		}
		if i%5 == 0 { // the shipped default password rule
			rs = ruleSpec{MinLen: 8, MinNum: 1, MinSym: 1, MinUp: 1, MinLower: 1}
		}
		real := rs.real()
		s := genASCII(r, 24)
		if r.Intn(4) == 0 { // boundary strings: exactly at the minima
			s = strings.Repeat("a", rs.MinLower) + strings.Repeat("B", rs.MinUp) + strings.Repeat("7", rs.MinNum) + strings.Repeat("!", rs.MinSym)
			for len(s) < rs.MinLen {
				s += "x"
			}
			switch r.Intn(4) {
			case 0:
				if len(s) > 0 {
					s = s[:len(s)-1]
				}
			case 1:
				s += pickS(r, " ", "\t", "z", "Q", "5", "#")
			}
		}
		want := rs.valid(s)
		got := real.IsValid(s)
		errs := real.Errors(s)
		c.Stats.Evaluations++
		c.Stats.Count("policy-cases")
		if want {
			c.Stats.Count("policy-accepts")
		}
		c.Stats.Sig(fmt.Sprintf("policy/valid=%v/req=%v/match=%s/len=%v/classes=%v/ws=%v", want, rs.Required, rs.Match, rs.MinLen > 0 || rs.MaxLen > 0, rs.MinLower+rs.MinUp+rs.MinNum+rs.MinSym+rs.MinLetters > 0, rs.AllowWS))
		if got != want || (errs == nil) != got {
			v := vio("C19", fmt.Sprintf("policy-differs|accepts=%v-should=%v", got, want), "Rules%+v on %q: IsValid=%v Errors=%v, the rule set read literally says valid=%v", rs, s, got, errs, want)
			c.Stats.Violations = append(c.Stats.Violations, sim.VioRec{Violation: *v, History: []string{fmt.Sprintf("%+v", rs), fmt.Sprintf("%q", s)}})
			return false
		}
	}
	return true
}

// --- the endpoint ---

type kv = [2]string

func effective(pairs []kv, jsonMode bool) map[string]string {
	m := map[string]string{}
	for _, p := range pairs {
		if _, seen := m[p[0]]; seen && !jsonMode {
			continue // form: first value wins
		}
		m[p[0]] = p[1] // JSON object: last duplicate wins
	}
	return m
}

var c19Hostile = []kv{{"confirmed", "true"}, {"Confirmed", "true"}, {"locked", "2000-01-01T00:00:00Z"}, {"attempt_count", "-5"}, {"oauth2_uid", "x"}, {"oauth2_provider", "alpha"},
	{"Password", "plaintext"}, {"totp_secret_key", "AAAA"}, {"sms_phone_number", "+1666"}, {"recovery_codes", "x"}, {"otps", "x"}, {"name", "Mallory"}, {"role", "admin"},
	{"arbitrary[x]", "y"}, {"pid", "other@x.test"}, {"recover_selector", "s"}, {"confirm_selector", "s"}, {"email ", "sp@x.test"}}

func c19Unit(c *RunCtx, unit int) {
	r := Rng(c.Seed, "C19", unit)
	if !c19Policy(c, r, tierN(c.Tier, 800, 4000)) {
		return
	}
	mods := []string{"register", "auth", "logout"}
	withConfirm := r.Intn(2) == 0
	if withConfirm {
		mods = append(mods, "confirm")
	}
	if r.Intn(2) == 0 {
		mods = append(mods, "lock")
	}
	cfg := world.Cfg{Modules: shuffled(r, mods), Mount: pickS(r, "/auth", ""), JSON: r.Intn(2) == 0, Err500: r.Intn(2) == 0, ProfileKeys: []string{"name"},
		PreserveFields: [][]string{nil, {"name", "email"}, {"zip", "name", "email", "city"}}[r.Intn(3)], Localizer: []string{"", "empty", "partial"}[r.Intn(3)], NilSessionState: r.Intn(3) == 0}
	cfg.AppendedRules = unit%2 == 1                             // the application appended rules of its own to the shipped rulesets
	cfg.SeparateEmail = unit%3 == 2                             // a username site: a new account has no e-mail address of its own yet
	cfg.AccessLog = []string{"", "", "load", "current"}[unit%4] // an application pre-loader that resolves the visitor before the routes run
	cfg.AllowWSPasswords = unit%4 == 3                          // the application's password rule allows blanks (pass-phrases)
	regWL := []string{"email", "password"}
	switch r.Intn(4) {
	case 3:
		regWL = []string{} // the application whitelists nothing for the register page
		cfg.RegWhitelist = regWL
	case 1:
		regWL = []string{"email", "password", "name"}
		cfg.RegWhitelist = regWL
	case 2:
		regWL = []string{"email", "password", "name", "newsletter"}
		cfg.RegWhitelist = regWL
	}
	w, err := world.New(cfg, "c19")
	if err != nil {
		c.Stats.Inconclusive = append(c.Stats.Inconclusive, "world: "+err.Error())
		return
	}
	c.Stats.Histories++
	existing := []string{"taken@site.test", "also.taken@site.test"}
	for _, p := range existing {
		w.Store.Put(&world.User{PID: p, Email: p, Password: sim.Hash4("Original1!pw"), Confirmed: true, Arbitrary: map[string]string{"name": "Owner"}})
	}
	pwRule := ruleSpec{MinLen: 8, MinNum: 1, MinSym: 1, MinUp: 1, MinLower: 1, AllowWS: cfg.AllowWSPasswords}
	pidRule := ruleSpec{Required: true, Match: "email"}
	n := 0
	var hist []string
	var created []string
	for i := 0; i < 40; i++ {
		n++
		b := world.NewBrowser(n)
		// sometimes the registering browser is already logged in as somebody
		if r.Intn(6) == 0 {
			w.Do(b, world.Req{Method: "POST", Path: w.P("/login"), Form: map[string]string{"email": existing[0], "password": "Original1!pw"}})
		}
		pid := fmt.Sprintf("new%d.%d@site.test", unit, i)
		switch r.Intn(10) {
		case 0:
			pid = existing[r.Intn(2)]
		case 2:
			// an identifier registered earlier in this unit (with confirm loaded: still unconfirmed)
			if len(created) > 0 {
				pid = created[r.Intn(len(created))]
			}
		case 1:
			pid = pickS(r, "", " ", "no-at-sign", "a@b", "a@b.C", "x y@z.test", "a@\nb.test", "TAKEN@site.test", "a@b.test\n")
		}
		pw := pickS(r, "Valid1!password", "Valid1!password", "Valid1!password", "short1!", "nouppercase1!", "NOLOWERCASE1!", "NoDigits!!!", "NoSymbols11", "With Space1!", strings.Repeat("Aa1!", 18)+"x", strings.Repeat("Aa1!", 18), "Aa1!aaaa", "",
			"$2a$04$N9qo8uLOickgx2ZMRZoMyeIjZAgcfl7p92ldGxad68LJZdL17lhWy", "$2a$10$R9h/cIPz0gi.URNNX3kh2OPST9/PgBkqquzi.Ss7KIUgO2t0jWMUW") // passphrases that happen to be well-formed bcrypt hash strings
		if cfg.AllowWSPasswords && i%3 == 0 && pw != "" {
			// pass-phrases with blanks at the ends and in the middle: the password is what was submitted, byte for byte
			pw = []string{" " + pw + "  ", pw + "\t", "\n" + pw, pw[:4] + " " + pw[4:] + " "}[(i/3)%4]
			c.Stats.Count("registrations-with-blanks-in-the-password")
		}
		conf := pw
		if r.Intn(8) == 0 {
			conf = pickS(r, "", pw+"x", "different1!A")
		}
		pairs := []kv{{"email", pid}, {"password", pw}, {"confirm_password", conf}}
		if r.Intn(8) == 0 {
			pairs = pairs[:2] // no confirm field at all
		}
		switch r.Intn(14) {
		case 0:
			pairs = []kv{{"email", pid}} // no password key at all
		case 1:
			pairs = []kv{{"email", pid}, {"confirm_password", conf}}
		case 2:
			pairs = []kv{{"password", pw}, {"confirm_password", conf}} // no identifier key at all
		}
		if r.Intn(5) == 0 { // duplicates: the second differs
			pairs = append(pairs, kv{"email", existing[0]}, kv{"password", "Other1!password"})
		}
		if r.Intn(6) == 0 {
			pairs = append([]kv{{"email", "first." + pid}}, pairs...)
		}
		for r.Intn(2) == 0 {
			pairs = append(pairs, c19Hostile[r.Intn(len(c19Hostile))])
		}
		if r.Intn(4) == 0 {
			pairs = append(pairs, kv{"newsletter", "yes"})
		}
		eff := effective(pairs, cfg.JSON)
		ePid, ePw, eConf := eff["email"], eff["password"], eff["confirm_password"]
		_, hasConf := eff["confirm_password"]
		valid := pidRule.valid(ePid) && pwRule.valid(ePw) && (ePw == "" || (hasConf && eConf != "" && eConf == ePw))
		asciiOnly := true
		for _, ch := range ePid + ePw {
			if ch > 127 {
				asciiOnly = false
			}
		}
		uidBefore := w.Sess.Of(b)["uid"]
		existed := w.Store.Peek(ePid) != nil
		if r.Intn(8) == 0 { // a backend call of this registration fails once
			w.FaultOps = map[string]error{pickS(r, "Save", "Create", "hash", "render", "Load"): errGeneric}
		}
		regPath, sent := w.P("/register"), pairs
		if !cfg.JSON && i%5 == 4 && len(pairs) == len(eff) {
			// a form whose action URL carries part of the fields (password and confirmation in the query string,
			// the rest in the body): a field is a field wherever in the request it travels
			q := url.Values{}
			sent = nil
			for _, p := range pairs {
				if p[0] == "password" || p[0] == "confirm_password" {
					q.Set(p[0], p[1])
				} else {
					sent = append(sent, p)
				}
			}
			if len(q) > 0 {
				regPath += "?" + q.Encode()
				c.Stats.Count("registrations-with-fields-in-the-query-string")
			}
		}
		rec := w.Do(b, world.Req{Method: "POST", Path: regPath, Pairs: sent})
		c.Stats.Evaluations++
		uidAfter := w.Sess.Of(b)["uid"]
		diff := rec.Diff()
		cls := "valid-new"
		switch {
		case !valid:
			cls = "invalid"
		case existed:
			cls = "existing"
		case !hashable(ePw):
			cls = "unhashable"
		}
		hist = append(hist, fmt.Sprintf("register %v → %d %s", trunc(fmt.Sprint(pairs), 160), rec.Status, rec.Location))
		c.Stats.Count("register:" + cls)
		c.Stats.Sig(fmt.Sprintf("register/%s/%s/confirm=%v/dups=%v/extras=%d/wl=%d/loggedin=%v → %d %s", cls, modeOf(cfg), withConfirm, len(pairs) != len(eff), len(eff)-3, len(regWL), uidBefore != "", rec.Status, rec.Location))
		fail := func(sig, f string, a ...interface{}) {
			v := vio("C19", sig, f, a...)
			c.Stats.Violations = append(c.Stats.Violations, sim.VioRec{Violation: *v, Index: unit, Cfg: cfg.String(), History: tail(hist, 6),
				Detail: fmt.Sprintf("pairs=%q status=%d loc=%q err=%q panic=%q diff=%v arbitrary=%v", pairs, rec.Status, rec.Location, rec.HandlerErr, trunc(rec.Panic, 200), diff, rec.Arbitrary)})
		}
		if !asciiOnly {
			continue
		}
		if rec.Panic != "" {
			fail("panic", "registration panicked: %s", trunc(rec.Panic, 120))
			return
		}
		if rec.FaultsFired > 0 {
			// a backend failed: the only clauses that still apply are the negative ones
			c.Stats.Count("register:with-backend-fault")
			if withConfirm && uidAfter != uidBefore {
				fail("logged-in-despite-confirmation|during-backend-fault", "registration with e-mail confirmation in force logged %q in while a backend call failed (%v)", uidAfter, rec.Calls)
				return
			}
			if cls != "valid-new" && uidAfter != uidBefore {
				fail("rejectable-registration-changed-session|"+cls+"|during-backend-fault", "a registration that must be refused (%s) changed the session user", cls)
				return
			}
			continue
		}
		if cls != "valid-new" {
			if len(diff) != 0 {
				fail("rejectable-registration-changed-storage|"+cls, "a registration that must be refused (%s) changed storage: %v", cls, diff)
				return
			}
			if uidAfter != uidBefore {
				fail("rejectable-registration-changed-session|"+cls, "a registration that must be refused (%s) changed the session user %q → %q", cls, uidBefore, uidAfter)
				return
			}
			continue
		}
		created = append(created, ePid)
		// exactly one account, the submitted one
		if len(diff) != 1 || diff[0].Field != "<created>" || diff[0].PID != ePid {
			fail("valid-registration-did-not-create-exactly-one-account", "valid registration of %q produced diff %v", ePid, diff)
			return
		}
		u := rec.After.Users[ePid]
		if !sim.LooksBcrypt(u.Password) || !sim.BcryptOK(u.Password, ePw) {
			fail("stored-password-not-hash-of-submitted", "stored password of %q is not a bcrypt hash of the submitted password", ePid)
			return
		}
		for _, m := range rec.Arbitrary {
			for k := range m {
				if !inList(regWL, k) {
					fail("non-whitelisted-field-handed-to-user|"+k, "field %q (not in the register whitelist %v) was handed to PutArbitrary", k, regWL)
					return
				}
			}
		}
		// no other stored field is attacker controlled
		clean := &world.User{PID: ePid, Email: u.Email, Password: u.Password, Arbitrary: u.Arbitrary, ConfirmSelector: u.ConfirmSelector, ConfirmVerifier: u.ConfirmVerifier,
			AttemptCount: u.AttemptCount, LastAttempt: u.LastAttempt}
		if fmt.Sprint(clean.Fields()) != fmt.Sprint(u.Fields()) {
			fail("attacker-controlled-field-stored", "the new record carries fields beyond pid/password/profile: %v", u.Fields())
			return
		}
		wantEmail := ePid
		if cfg.SeparateEmail {
			wantEmail = "" // a username site: the address is a profile field, filled in later
		}
		if u.Email != wantEmail || u.Confirmed {
			fail("new-account-email-or-confirmed-wrong", "new account email=%q confirmed=%v", u.Email, u.Confirmed)
			return
		}
		var akeys []string
		for k := range u.Arbitrary {
			akeys = append(akeys, k)
		}
		sort.Strings(akeys)
		for _, k := range akeys {
			if !inList(regWL, k) || u.Arbitrary[k] != eff[k] {
				fail("profile-field-not-from-whitelisted-input|"+k, "stored profile field %s=%q does not come from a whitelisted submitted field", k, u.Arbitrary[k])
				return
			}
		}
		if withConfirm {
			if uidAfter != uidBefore {
				fail("logged-in-despite-confirmation", "registration with e-mail confirmation in force changed the session user to %q", uidAfter)
				return
			}
			if len(rec.Mails) != 1 || len(rec.Mails[0].Email.To) != 1 || rec.Mails[0].Email.To[0] != wantEmail {
				fail("confirmation-mail-wrong", "expected exactly one confirmation mail to %q, got %d mails", wantEmail, len(rec.Mails))
				return
			}
			if u.ConfirmSelector == "" {
				fail("no-confirm-selector", "new account has no confirmation selector")
				return
			}
			c.Stats.Count("created-awaiting-confirmation")
		} else {
			if uidAfter != ePid {
				fail("not-logged-in-after-registration", "registration without confirmation did not log %q in (session user %q)", ePid, uidAfter)
				return
			}
			c.Stats.Count("created-and-logged-in")
		}
	}
	if unit%10 == 0 {
		c.Stats.Sample(map[string]interface{}{"unit": unit, "config": cfg, "requests": tail(hist, 6)})
	}
}

func init() {
	register(&Check{
		ID: "C19", Level: "exploration",
		Rule:  "per unit 40 POST /register requests through the real stack with field maps containing duplicates (form: first wins, JSON: last wins), missing fields, mismatched/absent confirm field, hostile extra fields (confirmed, locked, oauth2_uid, Password, totp_secret_key, name, role, ...), identifiers that exist / are blank / malformed, passwords on both sides of every default minimum and of bcrypt's 72-byte limit; register whitelists with 0-2 extra application fields; with and without the confirm module; form and JSON; registering browser anonymous or logged in. Oracle from the statement: refused (invalid by an independent evaluator / existing id / unhashable) => storage byte-identical and session user unchanged; else exactly one record whose password bcrypt-verifies the submitted one, PutArbitrary saw only whitelisted keys, every other stored field is at its zero value, logged in iff confirm is not loaded, else exactly one confirmation mail to that address. Plus a differential sweep of defaults.Rules.IsValid/Errors against an independent evaluator over generated rule settings x generated ASCII strings incl. strings exactly at / one below / one beyond the minima. In a third of the units the user type keeps its e-mail address apart from the primary identifier (a username site: new accounts have none yet); in half, the application appended rules of its own to the shipped rulesets. Every fifth form registration sends password and confirmation in the query string of the form's action URL and the rest in the body. Half of the units run behind an application pre-loader (ab.LoadCurrentUser / ab.CurrentUser before the routes): a logged-in requester registering a new identifier leaves every existing account untouched. distinct_nontrivial = distinct request signatures + policy signatures.",
		Units: func(t string) int { return tierN(t, 64, 3000) },
		Run:   c19Unit,
		Floors: func(t string) map[string]int {
			return map[string]int{"register:valid-new": 150, "register:invalid": 150, "register:existing": 25, "register:unhashable": 10, "created-and-logged-in": 50, "created-awaiting-confirmation": 40, "policy-cases": 40000, "policy-accepts": 2000}
		},
		Assumptions: []string{"the policy evaluator is exact on ASCII; requests with non-ASCII identifiers/passwords are executed but not judged (byte/rune distinction is out of scope)", "the user record's PutArbitrary follows the documented practice of keeping only declared profile fields; the oracle additionally inspects the whole map it was handed"},
	})
}
