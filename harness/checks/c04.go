package checks

import (
	"fmt"
	"math"
	"strings"
	"time"

	"verif/sim"
	"verif/world"
)

// lockAuto is the lock automaton written from the statement of C04.
type lockAuto struct {
	count   int
	last    time.Time
	hasLast bool
	until   time.Time
}

func (l *lockAuto) fail(t time.Time, W, D time.Duration, after int) {
	if !l.hasLast || t.Sub(l.last) > W {
		l.count = 1
	} else {
		l.count++
	}
	if l.count >= after {
		l.until = t.Add(D)
	}
	l.last, l.hasLast = t, true
}

type c04mon struct {
	stats *sim.Stats
	autos map[string]*lockAuto
}

func (m *c04mon) auto(u *world.User) *lockAuto {
	a, ok := m.autos[u.PID]
	if !ok {
		a = &lockAuto{count: u.AttemptCount, last: u.LastAttempt, hasLast: !u.LastAttempt.IsZero(), until: u.Locked}
		m.autos[u.PID] = a
	}
	return a
}

func (m *c04mon) Check(s *sim.Sim, st *sim.Step) []*sim.Violation {
	a, rec := st.Act, st.Rec
	mods := s.W.AB.Config.Modules
	W, D, N := mods.LockWindow, mods.LockDuration, mods.LockAfter
	now := rec.Now
	var U string
	ev := ""
	switch {
	case a.Kind == "admin_lock" || a.Kind == "admin_unlock":
		if u := rec.Before.Users[a.PID]; u != nil {
			U = a.PID
			au := m.auto(u)
			if a.Kind == "admin_lock" {
				au.until = now.Add(D)
				ev = "manual-lock"
			} else {
				au.count, au.until, au.hasLast = 0, time.Time{}, false
				ev = "manual-unlock"
			}
		}
	case rec.Kind == "http" && (a.Kind == "sms_remove" || a.Kind == "sms_confirm") && rec.Method == "POST" && rec.HandlerRan:
		// the SMS validator is one credential check shared by the validate, confirm and remove pages:
		// a wrong code on any of them is a failed 2FA-code check of the session's user. (A right one
		// changes a setting, it is no login: the automaton stays as it is.)
		u := rec.Before.Users[rec.SessIn["uid"]]
		if u == nil {
			return nil
		}
		ok, judged := false, true
		switch {
		case a.Secret2 != "":
			ok = liveRecovery(s, u.PID, a.Secret2)
		default:
			sec := rec.SessIn["sms_secret"]
			if a.Secret == "" || sec == "" {
				judged = false // a request for a (new) code / no code outstanding: not an attempt
			} else {
				want := u.SMSPhone
				if a.Kind == "sms_confirm" {
					want = rec.SessIn["sms_number"]
				}
				sentTo, bound := rec.SessIn["sms_secret_number"]
				ok = a.Secret == sec && (!bound || sentTo == want)
			}
		}
		if !judged {
			return nil
		}
		U = u.PID
		au := m.auto(u)
		if ok {
			ev = "2fa-settings-proof-accepted"
		} else {
			au.fail(now, W, D, N)
			ev = "2fa-failure"
		}
	case rec.Kind == "http":
		flow := flowOf(s, rec)
		if flow == "" || a.Kind != flow { // malformed/raw requests: not generated in this check
			return nil
		}
		switch flow {
		case "login", "otp_login":
			u := rec.Before.Users[a.PID]
			if u == nil {
				return nil
			}
			U = u.PID
			au := m.auto(u)
			if _, ok := s.PrimaryValid(st); ok {
				locked := au.until.After(now)
				au.last, au.hasLast = now, true
				ev = "correct-blocked"
				if !locked && (u.Confirmed || !s.Cfg.Has("confirm")) {
					if has2FA(s.Cfg, u) {
						ev = "correct-parked"
					} else {
						au.count = 0
						ev = "correct-completed"
					}
				}
			} else {
				au.fail(now, W, D, N)
				ev = "failure"
			}
		case "recover_end":
			// finishing a password recovery is no failed attempt and, unless recovery is configured to log the
			// user in (then it passes the same guard as a correct password), no login either: count, last
			// failure and lock stay exactly what they were
			tok := s.TokenByBytes("recover", a.Secret)
			if tok == nil {
				return nil // not a link the library ever mailed: no account is concerned
			}
			u := rec.Before.Users[tok.PID]
			if u == nil {
				return nil
			}
			U = u.PID
			au := m.auto(u)
			ev = "recovery-without-login"
			if pid, ok := s.PrimaryValid(st); ok && pid == U && rec.After.Users[U] != nil && rec.After.Users[U].Password != u.Password {
				locked := au.until.After(now)
				au.last, au.hasLast = now, true
				ev = "correct-blocked"
				if !locked && (u.Confirmed || !s.Cfg.Has("confirm")) {
					if has2FA(s.Cfg, u) {
						ev = "correct-parked"
					} else {
						au.count = 0
						ev = "correct-completed"
					}
				}
			}
		case "totp_validate", "sms_validate":
			kind := strings.SplitN(flow, "_", 2)[0]
			u := rec.Before.Users[subjectOf(s, rec, kind)]
			if u == nil {
				return nil
			}
			ok, judged := false, true
			switch {
			case kind == "totp" && u.TOTPSecretKey == "":
				judged = false
			case a.Secret2 != "":
				ok = liveRecovery(s, u.PID, a.Secret2)
			case kind == "totp":
				ok = sim.TOTPOK(u.TOTPSecretKey, a.Secret)
				if s.Cfg.OneTimeTOTP && u.TOTPLastCode == strings.TrimSpace(a.Secret) {
					ok = false
				}
			default: // sms
				sec := rec.SessIn["sms_secret"]
				if a.Secret == "" || sec == "" {
					judged = false // resend request / no code outstanding: not an attempt
				} else {
					// correct = the code outstanding in this session, delivered to this account's number
					ok = a.Secret == sec && s.SMSSentTo(u.SMSPhone, a.Secret)
				}
			}
			if !judged {
				return nil
			}
			U = u.PID
			au := m.auto(u)
			if ok {
				// the second step is guarded like the first: a locked account stays out
				locked := au.until.After(now)
				au.last, au.hasLast = now, true
				if locked {
					ev = "2fa-correct-blocked"
				} else {
					au.count = 0
					ev = "2fa-success"
				}
			} else {
				au.fail(now, W, D, N)
				ev = "2fa-failure"
			}
		default:
			return nil
		}
	default:
		return nil
	}
	if U == "" {
		return nil
	}
	au := m.autos[U]
	got := rec.After.Users[U]
	if got == nil {
		return nil
	}
	m.stats.Count("event:" + ev)
	wantLocked, gotLocked := au.until.After(now), got.Locked.After(now)
	var vs []*sim.Violation
	path := a.Kind
	if got.AttemptCount != au.count {
		vs = append(vs, vio("C04", fmt.Sprintf("count-mismatch|%s|%s", ev, path), "after %s on %s for %q: stored attempt count %d, the statement's automaton says %d (LockAfter=%d window=%s duration=%s)", ev, path, U, got.AttemptCount, au.count, N, W, D))
	}
	if wantLocked != gotLocked {
		vs = append(vs, vio("C04", fmt.Sprintf("lock-state-mismatch|%s|%s|want-locked=%v", ev, path, wantLocked), "after %s on %s for %q: stored locked=%v (until %s), automaton locked=%v (until %s); count=%d LockAfter=%d window=%s duration=%s now=%s", ev, path, U, gotLocked, ts(got.Locked), wantLocked, ts(au.until), au.count, N, W, D, ts(now)))
	} else if wantLocked && !got.Locked.Equal(au.until) {
		vs = append(vs, vio("C04", fmt.Sprintf("lock-until-mismatch|%s|%s", ev, path), "after %s on %s for %q: locked until %s, should be %s (LockDuration from the failure that (re)triggered it)", ev, path, U, ts(got.Locked), ts(au.until)))
	}
	if wantLocked {
		m.stats.Count("locked-after-event")
	}
	return vs
}

func ts(t time.Time) string {
	if t.IsZero() {
		return "never"
	}
	return t.UTC().Format("15:04:05.000000000")
}

func (m *c04mon) Post(s *sim.Sim, st *sim.Step) []*sim.Violation { return nil }

func (m *c04mon) Sig(s *sim.Sim, st *sim.Step) string {
	rec := st.Rec
	flow := flowOf(s, rec)
	pid := st.Act.PID
	if strings.HasSuffix(flow, "_validate") {
		pid = subjectOf(s, rec, strings.SplitN(flow, "_", 2)[0])
	}
	if flow == "" && !strings.HasPrefix(st.Act.Kind, "admin_") {
		return ""
	}
	u := rec.Before.Users[pid]
	if u == nil {
		return ""
	}
	mods := s.W.AB.Config.Modules
	gap := "first"
	if !u.LastAttempt.IsZero() {
		d := rec.Now.Sub(u.LastAttempt)
		switch {
		case d == 0:
			gap = "0"
		case d < mods.LockWindow-time.Nanosecond:
			gap = "<W"
		case d == mods.LockWindow-time.Nanosecond:
			gap = "W-1ns"
		case d == mods.LockWindow:
			gap = "=W"
		case d == mods.LockWindow+time.Nanosecond:
			gap = "W+1ns"
		default:
			gap = ">W"
		}
	}
	lk := "unlocked"
	if !u.Locked.IsZero() {
		d := u.Locked.Sub(rec.Now)
		switch {
		case d > time.Nanosecond:
			lk = "locked"
		case d == time.Nanosecond:
			lk = "locked-1ns-left"
		case d == 0:
			lk = "lock-ends-now"
		case d == -time.Nanosecond:
			lk = "lock-ended-1ns-ago"
		default:
			lk = "lock-ended"
		}
	}
	after := rec.After.Users[pid]
	res := ""
	if after != nil {
		res = fmt.Sprintf("count%d→%d", u.AttemptCount, after.AttemptCount)
		if after.Locked.After(rec.Now) {
			res += "+locked"
		}
	}
	return fmt.Sprintf("%s/%s/after=%d/%s/%s/%s", st.Act.Kind, st.Act.Resolved, mods.LockAfter, gap, lk, res)
}

var c04Profile = &sim.Profile{
	W: map[string]int{
		"login": 40, "otp_login": 8, "otp_add": 3, "totp_validate": 10, "sms_validate": 10, "advance": 30, "admin_lock": 3,
		"admin_unlock": 5, "logout": 3, "dropsid": 1, "sms_remove": 5, "sms_setup": 2, "sms_confirm": 3, "hooknext": 6,
	},
	Cls: map[string]map[string]int{
		"login":         {"ok": 40, "wrong": 40, "near": 8, "empty": 4, "other": 4, "hash": 4},
		"otp_login":     {"ok": 40, "wrong": 30, "spent": 15, "empty": 5, "other": 10},
		"totp_validate": {"ok": 35, "wrong": 35, "stale": 8, "othertotp": 6, "recovery": 8, "recovery_spent": 4, "recovery_other": 4},
		"sms_validate":  {"ok": 35, "wrong": 35, "lastsms": 6, "empty": 8, "recovery": 8, "recovery_spent": 4, "recovery_other": 4},
		"sms_remove":    {"empty": 30, "wrong": 40, "ok": 10, "recovery_spent": 10, "recovery_other": 10},
		"sms_confirm":   {"wrong": 50, "ok": 30, "lastsms": 20},
	},
	MinLen: 30, MaxLen: 70, Templates: c04Templates, TplProb: 0.25,
}

var c04Templates = []sim.Template{
	{Name: "wrong-codes-on-the-sms-remove-page", F: func(s *sim.Sim) []*sim.Action {
		// a fully logged-in session asks for a removal code and then guesses: each wrong guess is a failed
		// 2FA-code check and counts like any other, up to the lock
		if !s.Cfg.Has2FA("sms") || !s.Cfg.Has("auth") {
			return nil
		}
		v := findAcct(s, func(u *world.User) bool { return u.SMSPhone != "" && u.TOTPSecretKey == "" && u.Confirmed })
		if v < 0 {
			return nil
		}
		sc := []*sim.Action{act("login", 0, v, "ok"), act("sms_validate", 0, -9, "ok"), act("advance", 0, -9, "", "d", "11s"), act("sms_remove", 0, -9, "empty")}
		for i := 0; i < s.W.AB.Config.Modules.LockAfter+1; i++ {
			sc = append(sc, act("sms_remove", 0, -9, pickS(s.R, "wrong", "wrong", "recovery_spent")))
		}
		return append(sc, act("visit", 0, -9, "", "route", "/protected/plain"), act("login", 1, v, "ok"))
	}},
}

// c04RecoverProfile: failures, a completed password recovery in the middle, more failures / a login.
var c04RecoverProfile = &sim.Profile{
	W:      map[string]int{"login": 40, "advance": 20, "admin_lock": 3, "admin_unlock": 3, "logout": 3},
	Cls:    map[string]map[string]int{"login": {"ok": 35, "wrong": 65}},
	MinLen: 12, MaxLen: 24, TplProb: 1,
	Templates: []sim.Template{{Name: "recovery-between-failures", F: func(s *sim.Sim) []*sim.Action {
		v := s.R.Intn(len(s.Accts))
		var sc []*sim.Action
		for i := 0; i < s.R.Intn(s.W.AB.Config.Modules.LockAfter+1); i++ {
			sc = append(sc, act("login", 0, v, "wrong"))
		}
		if s.R.Intn(3) == 0 {
			sc = append(sc, act("admin_lock", 0, v, ""))
		}
		e := act("recover_end", 1, v, "current")
		e.Cls2 = "fresh"
		sc = append(sc, act("recover_start", 1, v, ""), e, act("login", 0, v, pickS(s.R, "wrong", "ok")), act("login", 0, v, "wrong"), act("login", 0, v, "ok"))
		return sc
	}}},
}

func init() {
	register(&Check{
		ID: "C04", Level: "exploration",
		Rule:  "histories of successes, failures on each path (password, OTP, TOTP code, SMS code — on the validate page and on the confirm/remove pages that share its validator —, recovery code), manual lock/unlock and clock advances drawn from {1s,9s,10s,11s,1m, W-1ns, W, W+1ns, W±1s, 3W, D-1ns, D, D+1ns, D±1s, 3D} for LockAfter in {1,2,3,5} and window/duration in {3ns..2h}x{2ns..12h}, 2-3 accounts interleaved. An independent automaton (count,last,lockedUntil) written from the statement is driven by the same history; after every request that touches an account the stored (AttemptCount, Locked>now, Locked) must equal the automaton's. In odd units a second, directed history (its own PRNG) runs the same automaton next to the recover module: failures, an operator lock, a completed password recovery (which is no attempt and, unless recovery logs the user in, no login), further failures and logins. distinct_nontrivial = distinct (path, class, LockAfter, gap class relative to LockWindow, lock phase, count transition) signatures.",
		Units: func(t string) int { return tierN(t, 1500, 100000) },
		Run: func(c *RunCtx, unit int) {
			r := Rng(c.Seed, "C04", unit)
			cfg := world.Cfg{Modules: shuffled(r, []string{"auth", "lock", "logout", "otp"}), Mount: "/auth", JSON: r.Intn(4) == 0,
				LockAfter:    []int{1, 2, 3, 5}[r.Intn(4)],
				LockWindow:   pickD(r, 3*time.Nanosecond, 30*time.Second, 5*time.Minute, 2*time.Hour),
				LockDuration: pickD(r, 2*time.Nanosecond, 10*time.Second, time.Minute, 12*time.Hour, 12*time.Hour, time.Duration(math.MaxInt64)),
				OneTimeTOTP:  r.Intn(2) == 0, LogoutMethod: "DELETE", Err500: r.Intn(2) == 0,
				ClockZone: []int{0, -8 * 3600, 9*3600 + 1800}[unit%3], ZoneLessStore: unit%2 == 0,
				AppHooksFirst: unit%3 == 0, // the application's listeners are registered before the modules' and run first
				CustomHasher:  unit%4 == 0} // a quarter of the units: the application's own hasher with its own error values
			switch r.Intn(4) {
			case 0:
				cfg.TwoFA = []string{"totp"}
			case 1:
				cfg.TwoFA = []string{"sms"}
			case 2:
				cfg.TwoFA = shuffled(r, []string{"totp", "sms"})
			}
			if r.Intn(3) == 0 {
				cfg.Modules = shuffled(r, append(cfg.Modules, "remember"))
			}
			s, err := sim.New(cfg, r, sim.SeedOpt{Accounts: 2 + r.Intn(2), Browsers: 2, TwoFAProb: 0.5})
			if err != nil {
				c.Stats.Inconclusive = append(c.Stats.Inconclusive, "world: "+err.Error())
				return
			}
			sim.RunHistory(s, c04Profile, []sim.Monitor{&c04mon{stats: c.Stats, autos: map[string]*lockAuto{}}}, c.Stats, unit)
			if unit%2 == 1 && len(c.Stats.Violations) == 0 {
				// a second, directed history with a generator of its own (the histories above stay what they
				// were): the same lock automaton next to the recover module
				r2 := Rng(c.Seed, "C04-recover", unit)
				cfg2 := cfg
				cfg2.Modules = append(append([]string(nil), cfg.Modules...), "recover")
				cfg2.RecoverLogin, cfg2.RecoverTTL = unit%4 == 1, 24*time.Hour
				s2, err := sim.New(cfg2, r2, sim.SeedOpt{Accounts: 2, Browsers: 2, TwoFAProb: 0.3})
				if err != nil {
					c.Stats.Inconclusive = append(c.Stats.Inconclusive, "world: "+err.Error())
					return
				}
				sim.RunHistory(s2, c04RecoverProfile, []sim.Monitor{&c04mon{stats: c.Stats, autos: map[string]*lockAuto{}}}, c.Stats, unit)
			}
		},
		Floors: func(t string) map[string]int {
			return map[string]int{"event:recovery-without-login": 50, "event:failure": 200, "event:2fa-failure": 30, "event:correct-completed": 100, "event:correct-blocked": 30, "event:correct-parked": 20,
				"event:2fa-success": 10, "event:manual-lock": 10, "event:manual-unlock": 10, "locked-after-event": 50}
		},
		Assumptions: []string{
			"an SMS code counts as 'correct' for counting purposes when it equals the code the session was sent (whether that binding is right is C02's question)",
			"after manual unlock the automaton restarts the count on the next failure (the code stores a synthetic LastAttempt of now-2*window, judged only through its effect on later counting)",
			"configurations without confirm and oauth2 so that completion of a correct login is decided by lock and 2FA state alone",
		},
	})
}
