package checks

import (
	"crypto/sha512"
	"encoding/base64"
	"fmt"
	"github.com/volatiletech/authboss/v3"
	"github.com/volatiletech/authboss/v3/remember"
	"io"
	"net/http"
	"net/url"
	"strings"
	"sync"
	"time"
	"unicode/utf8"

	"verif/sim"
	"verif/world"
)

type c07mon struct {
	stats   *sim.Stats
	level   map[int]string // browser → "half" (uid established only by a remember cookie) | "full"
	oauthRm map[int]bool   // browser → did its most recent OAuth2 start ask to be remembered
}

func pidClass(pid string) string {
	switch {
	case strings.HasPrefix(pid, "oauth2;;"):
		return "oauth2-pid"
	case strings.Contains(pid, ";"):
		return "pid-with-semicolon"
	case strings.ContainsRune(pid, 0):
		return "pid-with-nul"
	case len(pid) > 100:
		return "long-pid"
	case !utf8.ValidString(pid):
		return "invalid-utf8-pid"
	}
	for _, c := range pid {
		if c > 127 {
			return "non-ascii-pid"
		}
	}
	return "plain-pid"
}

// visibleToServer reports whether net/http hands this cookie value to the application at all.
func visibleToServer(val string) bool {
	r := http.Request{Header: http.Header{"Cookie": []string{"rm=" + val}}}
	c, err := r.Cookie("rm")
	return err == nil && c.Value != ""
}

func flushed(rec *world.Rec) bool { return len(rec.SessWrites) > 0 || len(rec.CookWrites) > 0 }

func rmPuts(rec *world.Rec) []string {
	var out []string
	for _, evs := range rec.CookWrites {
		for _, e := range evs {
			if e.Kind == "put" && e.Key == "rm" {
				out = append(out, e.Value)
			}
		}
	}
	return out
}

func (m c07mon) asked(s *sim.Sim, st *sim.Step) bool {
	a, rec := st.Act, st.Rec
	switch flowOf(s, rec) {
	case "login", "otp_login":
		return a.Form["rm"] == "true"
	case "oauth_cb":
		// what the user asked for is what the LATEST start request of this browser carried — not
		// whatever parameters an earlier, abandoned start may have left in the session
		return m.oauthRm[a.B]
	}
	return false
}

func (m c07mon) Check(s *sim.Sim, st *sim.Step) []*sim.Violation {
	rec := st.Rec
	if rec.Kind != "http" || !s.Cfg.Has("remember") {
		return nil
	}
	var vs []*sim.Violation
	if st.Act.Kind == "oauth_start" && rec.Location != "" {
		m.oauthRm[st.Act.B] = st.Act.Opt["rm"] == "true"
	}
	if st.Act.Kind == "dropsid" {
		delete(m.oauthRm, st.Act.B)
	}
	vs = append(vs, m.authLevel(s, st)...)
	cin, uidIn := rec.CookiesIn["rm"], rec.SessIn["uid"]
	puts := rmPuts(rec)
	rotated := false
	// a logout that ran to completion leaves no remember cookie in the browser — whatever happened to the
	// cookie earlier in the same request (a cookie-only browser is first re-authenticated, the cookie
	// rotated, and then logged out)
	if to, right := isLogoutReq(s, rec); to && right && s.RememberActive() && rec.Panic == "" && rec.FaultsFired == 0 && flushed(rec) && rec.AppHook == "" {
		m.stats.Count("logout-with-cookie:" + map[bool]string{true: "cookie-only-browser", false: "session"}[uidIn == "" && cin != ""])
		if rec.CookiesOut["rm"] != "" {
			vs = append(vs, vio("C07", "remember-cookie-survives-logout|"+map[bool]string{true: "cookie-only-browser", false: "session"}[uidIn == ""], "after logout the browser still holds a remember cookie (presented %q, session uid at request start %q)", trunc(cin, 16), uidIn))
		}
	}
	if rec.FaultsFired > 0 {
		m.stats.Count("requests-with-injected-backend-fault")
	}
	if s.RememberActive() && cin != "" && uidIn == "" && visibleToServer(cin) && rec.Panic == "" && rec.FaultsFired > 0 {
		// a backend failed in this request: the positive clauses (must re-authenticate, must delete)
		// are suspended, the negative one is not
		if c := s.Cookies[cin]; (c == nil || c.State == sim.Spent || c.State == sim.Dead) && st.UIDOut != "" && st.UIDOut != st.UIDIn && justify(s, st, st.UIDOut) == "" {
			vs = append(vs, vio("C07", "dead-cookie-authenticated|during-backend-fault", "a dead or unknown remember cookie produced a session for %q while a backend call failed (%v)", st.UIDOut, rec.Calls))
		}
	}
	if s.RememberActive() && cin != "" && uidIn == "" && visibleToServer(cin) && rec.Panic == "" && rec.FaultsFired == 0 {
		c := s.Cookies[cin]
		switch {
		case c != nil && c.State == sim.Live:
			if !flushed(rec) {
				m.stats.Count("live-presented-but-response-never-written")
				break
			}
			pc := pidClass(c.PID)
			if pid, ok := s.PrimaryValid(st); ok && pid == c.PID {
				// the same request also carries a valid primary credential of that account: which of
				// the two put the uid cannot be told apart at the boundary — no demand either way
				m.stats.Count("live-presented-together-with-own-login")
				rotated = true
				break
			}
			if !sim.SessPutAny(rec, "uid", c.PID) {
				vs = append(vs, vio("C07", "live-cookie-not-honoured|"+pc, "a live, unused remember cookie issued to %q (%s) did not re-authenticate that account (session writes: %v)", c.PID, pc, rec.SessWrites))
				break
			}
			rotated = true
			m.stats.Count("rotation:" + pc)
			if !sim.SessPutAny(rec, "halfauth", "true") {
				vs = append(vs, vio("C07", "reauth-without-halfauth", "remember re-authentication of %q did not mark the session half-authenticated", c.PID))
			}
			if len(puts) == 0 || puts[0] == cin {
				vs = append(vs, vio("C07", "cookie-not-rotated", "remember re-authentication of %q did not hand out a fresh cookie value", c.PID))
			}
			nb, na := len(rec.Before.Tokens[c.PID]), len(rec.After.Tokens[c.PID])
			if na != nb-1+len(puts) && !passwordChanged(rec, c.PID) && st.UIDOut == c.PID {
				vs = append(vs, vio("C07", "token-table-size-changed-on-rotation", "token rows of %q went from %d to %d on a rotation", c.PID, nb, na))
			}
			if rec.Probe.Ran && rec.Probe.Route == "full" {
				vs = append(vs, vio("C07", "reauth-request-admitted-to-full-auth-route", "the request that was authenticated only by the remember cookie of %q was admitted to a route requiring FULL authentication", c.PID))
			}
		case c != nil && c.State == sim.Limbo:
			// presented earlier in a request that did not complete: it may or may not still be live
			if sim.SessPutAny(rec, "uid", c.PID) {
				rotated = true
			}
		default:
			why := "unknown"
			if c != nil {
				why = map[int]string{sim.Spent: "spent", sim.Dead: "revoked"}[c.State]
			}
			m.stats.Count("dead-cookie-presented:" + why)
			if st.UIDOut != "" && st.UIDOut != st.UIDIn && justify(s, st, st.UIDOut) == "" {
				vs = append(vs, vio("C07", "dead-cookie-authenticated|"+why, "a %s remember cookie produced a session for %q", why, st.UIDOut))
			}
			if flushed(rec) && rec.CookiesOut["rm"] == cin {
				vs = append(vs, vio("C07", "dead-cookie-not-deleted|"+why, "a %s remember cookie was left in the client by a response that did write client state", why))
			}
			if !flushed(rec) {
				m.stats.Count("dead-presented-but-response-never-written")
			}
		}
	}
	if s.RememberActive() && cin != "" && uidIn != "" {
		for _, c := range rec.Calls {
			if c.Op == "UseRememberToken" {
				vs = append(vs, vio("C07", "cookie-consumed-while-logged-in", "the remember middleware consumed a cookie although the session already names %q", uidIn))
			}
		}
		m.stats.Count("logged-in-browser-left-alone")
	}
	// issue only when asked
	want := 0
	if rotated {
		want++
	}
	if m.asked(s, st) {
		want++
	}
	if len(puts) > want && rec.FaultsFired == 0 {
		vs = append(vs, vio("C07", "cookie-issued-without-being-asked|"+flowOf(s, rec), "%d remember cookie value(s) issued by %s %s although the user did not ask to be remembered (rotation=%v)", len(puts), rec.Method, rec.Target, rotated))
	}
	if m.asked(s, st) && len(puts) > 0 {
		m.stats.Count("issued-on-request:" + flowOf(s, rec))
	}
	// full logins clear the half-auth mark
	if j := justify(s, st, st.UIDOut); st.UIDOut != "" && (j == "login" || j == "otp_login" || j == "oauth2" || j == "2fa-step") {
		if sim.SessPutAny(rec, "uid", st.UIDOut) && rec.SessOut["halfauth"] != "" && flowOf(s, rec) != "" {
			if justifyNoCookie(s, st) {
				vs = append(vs, vio("C07", "full-login-left-halfauth", "a full login of %q via %s left the half-auth mark in the session", st.UIDOut, j))
			}
		}
	}
	// half-authenticated sessions: full-auth routes refuse, plain ones admit
	if rec.SessIn["halfauth"] != "" && rec.SessIn["uid"] != "" {
		if rec.Probe.Ran && rec.Probe.Route == "full" {
			vs = append(vs, vio("C07", "halfauth-session-admitted-to-full-auth-route", "half-authenticated session of %q admitted to a FULL-auth route", rec.SessIn["uid"]))
		}
		if rec.Probe.Ran && rec.Probe.Route == "bare" {
			m.stats.Count("halfauth-admitted-to-plain-route")
		}
		if !rec.Probe.Ran && strings.HasPrefix(rec.Target, "/protected/full") {
			m.stats.Count("halfauth-refused-on-full-route")
		}
	}
	return vs
}

// justifyNoCookie: the uid was put by the login flow itself, not (only) by the cookie.
func justifyNoCookie(s *sim.Sim, st *sim.Step) bool {
	pid, ok := s.PrimaryValid(st)
	if ok && pid == st.UIDOut {
		return true
	}
	return st.Act.Kind == "oauth_cb" || strings.HasSuffix(st.Act.Kind, "_validate")
}

func passwordChanged(rec *world.Rec, pid string) bool {
	for _, d := range rec.Diff() {
		if d.PID == pid && d.Field == "Password" {
			return true
		}
	}
	return false
}

func (m c07mon) Post(s *sim.Sim, st *sim.Step) []*sim.Violation { return nil }

// authLevel keeps the ledger of HOW each browser's session came to name its user and checks that a
// session established only by a remember cookie keeps its half-auth mark until a login of that
// account completes. Called from Check (ledger as before the request, request already executed).
func (m c07mon) authLevel(s *sim.Sim, st *sim.Step) []*sim.Violation {
	rec := st.Rec
	b := st.Act.B
	authLevels(m.level).observe(s, st)
	if rec.Kind != "http" || !s.RememberActive() {
		return nil
	}
	uid := rec.SessOut["uid"]
	if m.level[b] == "half" && uid != "" && rec.SessOut["halfauth"] == "" && flushed(rec) && rec.FaultsFired == 0 {
		return []*sim.Violation{vio("C07", "half-auth-mark-lost-without-full-login|"+st.Act.Kind, "the session of b%d names %q only on the strength of a remember cookie, yet after %s %s its half-auth mark is gone although no login of that account completed in it", b, uid, rec.Method, rec.Target)}
	}
	return nil
}

// authLevels is the ledger of HOW each browser's session came to name its user: "full" when a login
// of that account completed in it, "half" when only a remember cookie vouches for it.
type authLevels map[int]string

// observe updates the ledger with an executed request (ledger state before Learn).
func (l authLevels) observe(s *sim.Sim, st *sim.Step) {
	rec := st.Rec
	b := st.Act.B
	if st.Act.Kind == "dropsid" {
		delete(l, b)
		return
	}
	if rec.Kind != "http" || !s.RememberActive() {
		return
	}
	uid := rec.SessOut["uid"]
	if uid == "" {
		delete(l, b)
		return
	}
	if sim.SessPutAny(rec, "uid", uid) {
		switch {
		case justifyFlow(s, st, uid) != "":
			l[b] = "full"
		case rememberJustifies(s, st, uid):
			l[b] = "half"
		}
	}
	// the validate pages also serve users who are logged in already: a remembered (half-authenticated)
	// user who proves the account's second factor there is taken to full authentication by the library
	// — by design ("Look up CurrentUser first…"), and with a credential of that account
	// (the remembered session may also have come into being in this very request: a browser that arrives at
	// the validate page with nothing but its live remember cookie)
	if k := st.Act.Kind; (k == "totp_validate" || k == "sms_validate") && (rec.SessIn["uid"] == uid || rememberJustifies(s, st, uid)) && rec.SessOut["halfauth"] == "" &&
		sim.SessPutAny(rec, "twofactor", strings.SplitN(k, "_", 2)[0]) && secondFactorProven(s, st, uid, k) != "" {
		l[b] = "full"
	}
}

func (m c07mon) Sig(s *sim.Sim, st *sim.Step) string {
	rec := st.Rec
	if rec.Kind != "http" {
		return ""
	}
	cin := rec.CookiesIn["rm"]
	if cin == "" && len(rmPuts(rec)) == 0 {
		return ""
	}
	cs, pc := "none", ""
	if cin != "" {
		cs = "unknown"
		if c := s.Cookies[cin]; c != nil {
			cs = map[int]string{sim.Live: "live", sim.Spent: "spent", sim.Dead: "revoked", sim.Limbo: "limbo"}[c.State]
			pc = pidClass(c.PID)
		} else if !visibleToServer(cin) {
			cs = "dropped-by-net/http"
		} else if _, err := base64.URLEncoding.DecodeString(cin); err != nil {
			cs = "not-base64"
		}
	}
	out := "uid-same"
	if st.UIDIn != st.UIDOut {
		out = "uid-changed"
	}
	return fmt.Sprintf("%s/%s/%s/%s/%s/puts=%d/del=%v", st.Act.Kind, cs, pc, sessClass(rec.SessIn), out, len(rmPuts(rec)), rec.CookiesIn["rm"] != "" && rec.CookiesOut["rm"] == "")
}

// hostile cookie byte strings
func c07Extra(s *sim.Sim) *sim.Action {
	r := s.R
	enc := base64.URLEncoding.EncodeToString
	b := r.Intn(len(s.Br))
	var live []*sim.CookieRec
	for _, c := range s.Cookies {
		if c.State == sim.Live {
			live = append(live, c)
		}
	}
	pid := s.Accts[r.Intn(len(s.Accts))].PID
	val := ""
	switch r.Intn(12) {
	case 0:
		val = "!!!not-base64!!!"
	case 1:
		val = enc([]byte("nosemicolonatall"))
	case 2:
		val = enc([]byte(";" + pid))
	case 3:
		val = enc([]byte(pid + ";"))
	case 4:
		val = enc(append([]byte(pid+";"), make([]byte, 32)...))
	case 5:
		val = enc([]byte(pid))
	case 6:
		val = ""
	case 7:
		val = enc([]byte(";;;;"))
	case 8, 9, 10:
		// another account's nonce under this PID / truncated / extended live cookie
		if len(live) > 0 {
			// deterministic pick: smallest issue index
			c := live[0]
			for _, x := range live {
				if x.Issued < c.Issued {
					c = x
				}
			}
			raw, _ := base64.URLEncoding.DecodeString(c.Val)
			if len(raw) > 33 {
				nonce := raw[len(raw)-32:]
				switch r.Intn(4) {
				case 0:
					val = enc(append([]byte(pid+";"), nonce...))
				case 1:
					val = enc(raw[:len(raw)-1])
				case 2:
					val = enc(append(append([]byte(nil), raw...), 'x'))
				default:
					val = base64.StdEncoding.EncodeToString(raw)
				}
			}
		}
	default:
		val = strings.Repeat("QUFB", 2000)
	}
	a := act("steal", b, -9, "raw", "val", val)
	return a
}

var c07PIDs = []string{"semi;colon@x.test", "two;;semis@x.test", "nul\x00byte@x.test", "ünï©ode@x.test", strings.Repeat("long", 80) + "@x.test", "trailing;@x.test",
	"J\xfcrgen@x.test", "bin\xff\xfe\x80id@x.test"} // Latin-1 and binary identifiers: not valid UTF-8

var c07Profile = &sim.Profile{
	W: map[string]int{
		"login": 24, "dropsid": 16, "visit": 18, "steal": 12, "logout": 5, "recover_start": 2, "recover_end": 3, "admin_updatepw": 2,
		"oauth_start": 5, "oauth_cb": 6, "otp_login": 2, "otp_add": 2, "advance": 1, "raw": 2, "get": 2, "totp_validate": 2, "sms_validate": 2, "faultnext": 3,
	},
	Cls: map[string]map[string]int{
		"login":       {"ok": 75, "wrong": 15, "near": 5, "empty": 5},
		"oauth_cb":    {"own": 90, "garbage": 5, "spent": 5},
		"oauth_cb2":   {"validcode": 90, "badcode": 5, "error": 5},
		"recover_end": {"current": 80, "garbage": 20},
	},
	MinLen: 25, MaxLen: 60, Extra: c07Extra, ExtraProb: 0.08, Templates: c07Templates, TplProb: 0.25,
}

var c07Templates = []sim.Template{
	{Name: "password-reset-of-one-account-from-another-accounts-session", F: func(s *sim.Sim) []*sim.Action {
		// A and B both hold remember cookies; a browser that is logged in as A completes B's password
		// recovery: B's cookies die, A's do not (a copy of A's cookie was put aside on a third browser
		// before, because the reset legitimately clears the rm cookie of the browser it is done on)
		if !s.RememberActive() || !s.Cfg.Has("recover") || !s.Cfg.Has("auth") || len(s.Br) < 3 {
			return nil
		}
		free := func(u *world.User) bool { return u.TOTPSecretKey == "" && u.SMSPhone == "" && u.Confirmed }
		a := findAcct(s, free)
		b := findAcct(s, free, a)
		if a < 0 || b < 0 {
			return nil
		}
		e := act("recover_end", 0, b, "current")
		e.Cls2 = "fresh"
		return []*sim.Action{act("login", 0, a, "ok", "rm", "true"), act("steal", 2, -9, "live"), act("login", 1, b, "ok", "rm", "true"),
			act("recover_start", 0, b, ""), e, act("visit", 2, -9, "", "route", "/public"), act("dropsid", 1, -9, ""), act("visit", 1, -9, "", "route", "/public")}
	}},
	{Name: "logout-is-the-first-request-of-a-cookie-only-browser", F: func(s *sim.Sim) []*sim.Action {
		// the browser was restarted (session gone, remember cookie kept) and the first thing the user does
		// is log out: the cookie is rotated by the middleware and deleted by the logout in ONE response
		if !s.RememberActive() || !s.Cfg.Has("logout") || !s.Cfg.Has("auth") {
			return nil
		}
		v := findAcct(s, func(u *world.User) bool { return u.TOTPSecretKey == "" && u.SMSPhone == "" && u.Confirmed })
		if v < 0 {
			return nil
		}
		b := s.R.Intn(len(s.Br))
		return []*sim.Action{act("login", b, v, "ok", "rm", "true"), act("dropsid", b, -9, ""), act("logout", b, -9, ""), act("visit", b, -9, "", "route", "/public"),
			act("visit", b, -9, "", "route", "/protected/plain")}
	}},
}

func init() {
	register(&Check{
		ID: "C07", Level: "exploration",
		Rule:  "histories of issue/use/replay/theft/logout/password-reset over accounts whose identifiers come from a hostile corpus (';', ';;', NUL, non-ASCII, invalid UTF-8 (Latin-1, binary), 320 bytes, trailing ';') and over OAuth2 accounts (identifiers the library builds itself); cookie values presented: live, spent, revoked, stolen onto another browser, net/http-invisible, not base64, no separator, separator first/last, right PID + zero nonce, another account's nonce under this PID, truncated/extended live cookies, 8 KB. Ledger: every rm value seen in a Set-Cookie with the account the server's token table attributes it to, spent/revoked marks. Oracle per request: live cookie from a uid-less browser => put(uid=that account), halfauth, a fresh value, same number of token rows, and no admission to a full-auth route; any other value => no session and the cookie deleted (when the response wrote client state); logged-in browsers are left alone; no rm value is issued unless rm=true was submitted (or rotation); full logins clear halfauth. Plus, in every 100th unit, a theft race on a real server with jittered stores: the remember cookie of each of 6 accounts is presented by 6 session-less browsers released at the same moment, the winner's fresh value is raced again, 12 rounds; per race at most one request is answered as the account and at most one fresh value is handed out. Every 4th unit runs a second, directed history in which cookies are presented on requests carrying headers browsers, proxies and CDNs add (Sec-Purpose / Purpose / X-Moz prefetch, fetch metadata, X-Forwarded-*, cache headers): rotation and single use do not depend on them. distinct_nontrivial = distinct (action, cookie state, PID class, session state, uid outcome, #values issued, deleted) signatures.",
		Units: func(t string) int { return tierN(t, 800, 40000) },
		Run: func(c *RunCtx, unit int) {
			if unit%100 == 0 {
				// "bound to one user", "a fresh value": the token mint itself, called from 32 goroutines at
				// once (as concurrent logins and rotations do) — every token names the pid it was minted for
				// and no 32-byte nonce comes out twice
				if msg, n := mintBurst(32, 4000); msg != "" {
					c.Stats.Violations = append(c.Stats.Violations, sim.VioRec{Violation: *vio("C07", "token-mint-under-concurrency", "%s", msg), Index: unit})
				} else {
					c.Stats.Add("tokens-minted-in-parallel", n)
					c.Stats.Evaluations += n
				}
			}
			if unit%100 == 50 {
				// "exactly once" when the owner's browser and a thief present the same cookie at the same moment
				if msg, n := theftBurst(c.Seed*1000+int64(unit), 6, 6, 12); msg != "" {
					c.Stats.Violations = append(c.Stats.Violations, sim.VioRec{Violation: *vio("C07", "cookie-honoured-more-than-once|presented-concurrently", "%s", msg), Index: unit})
				} else {
					c.Stats.Add("cookies-raced-by-several-browsers", n)
					c.Stats.Evaluations += n
				}
			}
			r := Rng(c.Seed, "C07", unit)
			cfg := randomCfg(r, "auth", "remember", "logout")
			cfg.UseExpire = false
			if r.Intn(2) == 0 {
				cfg.TwoFA = nil
			}
			so := sim.SeedOpt{Accounts: 4, Browsers: 3, TwoFAProb: 0.2}
			if !cfg.JSON {
				so.PIDs = shuffled(r, c07PIDs)[:2]
			} else {
				so.PIDs = shuffled(r, []string{"semi;colon@x.test", "two;;semis@x.test", "ünï©ode@x.test", "trailing;@x.test"})[:2]
			}
			s, err := sim.New(cfg, r, so)
			if err != nil {
				c.Stats.Inconclusive = append(c.Stats.Inconclusive, "world: "+err.Error())
				return
			}
			sim.RunHistory(s, c07Profile, []sim.Monitor{c07mon{stats: c.Stats, level: map[int]string{}, oauthRm: map[int]bool{}}}, c.Stats, unit)
			if unit%4 == 3 && len(c.Stats.Violations) == 0 {
				// a second, directed history (generator of its own): the cookie arrives on requests that carry the
				// headers browsers, proxies and CDNs add of their own accord (speculative loads, fetch metadata,
				// forwarding) — single use and rotation are properties of the cookie, not of the request's dressing
				r2 := Rng(c.Seed, "C07-headers", unit)
				cfg2 := randomCfg(r2, "auth", "remember", "logout")
				cfg2.UseExpire, cfg2.TwoFA = false, nil
				if s2, err := sim.New(cfg2, r2, sim.SeedOpt{Accounts: 3, Browsers: 3}); err == nil {
					sim.RunHistory(s2, c07HeaderProfile, []sim.Monitor{c07mon{stats: c.Stats, level: map[int]string{}, oauthRm: map[int]bool{}}}, c.Stats, unit)
				}
			}
		},
		Floors: func(t string) map[string]int {
			return map[string]int{"rotation:plain-pid": 30, "dead-cookie-presented:spent": 20, "dead-cookie-presented:unknown": 20, "dead-cookie-presented:revoked": 3,
				"logged-in-browser-left-alone": 50, "issued-on-request:login": 50, "halfauth-refused-on-full-route": 3, "halfauth-admitted-to-plain-route": 3, "cookies-raced-by-several-browsers": 100}
		},
		Assumptions: []string{"'issued to' is learned from the server's own token table (the i-th AddRememberToken call of a request pairs with the i-th rm value it set)", "the 'deleted from the client' clause is judged only on responses that wrote client state (a handler that errors under the silent error handler writes nothing; that is C11/C18 territory)"},
	})
}

var c07Headers = []string{"Sec-Purpose: prefetch", "Sec-Purpose: prefetch;prerender", "Purpose: prefetch", "X-Purpose: preview", "X-Moz: prefetch",
	"Sec-Fetch-Dest: document|Sec-Fetch-Mode: navigate|Sec-Fetch-Site: none", "X-Forwarded-For: 203.0.113.9|X-Forwarded-Proto: https", "Save-Data: on|DNT: 1", "Cache-Control: no-cache|Pragma: no-cache", "X-Requested-With: XMLHttpRequest"}

// c07HeaderProfile: issue, present with extra request headers (must rotate like any other presentation), replay the
// rotated-away value with and without the same headers (must be refused and deleted).
var c07HeaderProfile = &sim.Profile{
	W:      map[string]int{"login": 20, "visit": 30, "dropsid": 10, "steal": 15, "logout": 5},
	Cls:    map[string]map[string]int{"login": {"ok": 90, "wrong": 10}},
	MinLen: 12, MaxLen: 24, TplProb: 1,
	Templates: []sim.Template{{Name: "cookie-presented-with-browser-added-headers", F: func(s *sim.Sim) []*sim.Action {
		if !s.RememberActive() || !s.Cfg.Has("auth") {
			return nil
		}
		v := findAcct(s, func(u *world.User) bool { return u.TOTPSecretKey == "" && u.SMSPhone == "" && u.Confirmed })
		if v < 0 {
			return nil
		}
		h1, h2 := c07Headers[s.R.Intn(len(c07Headers))], c07Headers[s.R.Intn(len(c07Headers))]
		return []*sim.Action{act("login", 0, v, "ok", "rm", "true"), act("dropsid", 0, -9, ""), act("visit", 0, -9, "", "route", "/public", "hdr", h1),
			act("steal", 1, -9, "spent"), act("visit", 1, -9, "", "route", "/public", "hdr", h1), act("steal", 2, -9, "spent"), act("visit", 2, -9, "", "route", "/protected/bare"),
			act("dropsid", 0, -9, ""), act("visit", 0, -9, "", "route", "/protected/plain", "hdr", h2), act("steal", 1, -9, "spent"), act("visit", 1, -9, "", "route", "/public", "hdr", h2)}
	}}},
}

// theftBurst: on a real server (jittered stores) G accounts log in with rm=true; each cookie is then
// presented by K session-less browsers released at the same moment; the value the winner receives is
// raced again, M rounds. Per race: at most one request is answered as the account and at most one fresh
// value is handed out. Returns the first discrepancy and the number of races judged.
func theftBurst(seed int64, G, K, M int) (string, int) {
	srv, err := newC20Server(seed, false, true, false)
	if err != nil {
		return "", 0
	}
	defer srv.close()
	newClient := func() *http.Client {
		return &http.Client{CheckRedirect: func(*http.Request, []*http.Request) error { return http.ErrUseLastResponse }, Timeout: 30 * time.Second}
	}
	races := 0
	for g := 0; g < G; g++ {
		pid := fmt.Sprintf("raced%d@site.test", g)
		srv.store.Put(&world.User{PID: pid, Email: pid, Password: sim.Hash4("Rac3d!passw"), Confirmed: true})
		req, _ := http.NewRequest("POST", srv.srv.URL+"/auth/login", strings.NewReader(url.Values{"email": {pid}, "password": {"Rac3d!passw"}, "rm": {"true"}}.Encode()))
		req.Header.Set("Content-Type", "application/x-www-form-urlencoded")
		rm := ""
		if resp, err := newClient().Do(req); err == nil {
			for _, ck := range resp.Cookies() {
				if ck.Name == "rm" {
					rm = ck.Value
				}
			}
			io.Copy(io.Discard, resp.Body)
			resp.Body.Close()
		}
		for round := 0; round < M && rm != ""; round++ {
			type res struct {
				authed bool
				next   string
			}
			out := make([]res, K)
			var wg sync.WaitGroup
			start := make(chan struct{})
			for k := 0; k < K; k++ {
				wg.Add(1)
				go func(k int) {
					defer wg.Done()
					rq, _ := http.NewRequest("GET", srv.srv.URL+"/public", nil)
					rq.AddCookie(&http.Cookie{Name: "rm", Value: rm})
					hc := newClient()
					<-start
					resp, err := hc.Do(rq)
					if err != nil {
						return
					}
					body, _ := io.ReadAll(resp.Body)
					resp.Body.Close()
					out[k].authed = strings.Contains(string(body), "uid="+pid)
					for _, ck := range resp.Cookies() {
						if ck.Name == "rm" && ck.Value != "" && ck.MaxAge >= 0 {
							out[k].next = ck.Value
						}
					}
				}(k)
			}
			close(start)
			wg.Wait()
			races++
			authed, next := 0, ""
			fresh := map[string]int{}
			for _, o := range out {
				if o.authed {
					authed++
				}
				if o.next != "" {
					fresh[o.next]++
					next = o.next
				}
			}
			if authed > 1 {
				return fmt.Sprintf("one remember cookie of %s presented by %d browsers at the same moment authenticated %d of them (race %d)", pid, K, authed, round), races
			}
			if len(fresh) > 1 || (len(fresh) == 1 && fresh[next] > 1) {
				return fmt.Sprintf("one remember cookie of %s presented by %d browsers at the same moment: fresh values were handed to more than one of them (%v)", pid, K, fresh), races
			}
			rm = next
		}
	}
	return "", races
}

// mintBurst calls remember.GenerateToken from G goroutines M times each and checks the tokens.
func mintBurst(G, M int) (string, int) {
	toks := make([][]string, G)
	var wg sync.WaitGroup
	for g := 0; g < G; g++ {
		wg.Add(1)
		go func(g int) {
			defer wg.Done()
			pid := fmt.Sprintf("mint%d@site.test", g)
			for i := 0; i < M; i++ {
				if _, tok, err := remember.GenerateToken(pid); err == nil {
					toks[g] = append(toks[g], tok)
				}
			}
		}(g)
	}
	wg.Wait()
	seen := map[string]int{}
	for g := range toks {
		pid := fmt.Sprintf("mint%d@site.test", g)
		for _, t := range toks[g] {
			b, err := base64.URLEncoding.DecodeString(t)
			if err != nil || len(b) != len(pid)+33 || string(b[:len(pid)+1]) != pid+";" {
				return fmt.Sprintf("a token minted for %s is %q", pid, trunc(t, 24)), 0
			}
			if other, dup := seen[string(b[len(pid)+1:])]; dup {
				return fmt.Sprintf("the same 32-byte nonce was minted twice (for mint%d and for %s) among %d tokens minted by %d goroutines", other, pid, G*M, G), 0
			}
			seen[string(b[len(pid)+1:])] = g
		}
	}
	return "", len(seen)
}

// tokenBurst calls ONE shared one-time-token generator (as the confirm and recover modules of one
// instance do) from G goroutines M times each: every token is unique, and the selector / verifier
// handed out with it are the hashes of that token's own halves.
func tokenBurst(G, M int) (string, int) {
	gen := authboss.NewSha512TokenGenerator()
	type tk struct{ sel, ver, tok string }
	out := make([][]tk, G)
	var wg sync.WaitGroup
	for g := 0; g < G; g++ {
		wg.Add(1)
		go func(g int) {
			defer wg.Done()
			for i := 0; i < M; i++ {
				if s, v, t, err := gen.GenerateToken(); err == nil {
					out[g] = append(out[g], tk{s, v, t})
				}
			}
		}(g)
	}
	wg.Wait()
	seen := map[string]bool{}
	for g := range out {
		for _, t := range out[g] {
			raw, err := base64.URLEncoding.DecodeString(t.tok)
			if err != nil || len(raw) != 64 {
				return fmt.Sprintf("a generated token does not decode to 64 bytes: %q", trunc(t.tok, 24)), 0
			}
			hs, hv := sha512.Sum512(raw[:32]), sha512.Sum512(raw[32:])
			if base64.StdEncoding.EncodeToString(hs[:]) != t.sel || base64.StdEncoding.EncodeToString(hv[:]) != t.ver {
				return fmt.Sprintf("a token was handed out with the selector/verifier of other bytes (%d tokens minted by %d goroutines)", G*M, G), 0
			}
			if seen[t.tok] {
				return fmt.Sprintf("the same one-time token was generated twice among %d tokens minted by %d goroutines", G*M, G), 0
			}
			seen[t.tok] = true
		}
	}
	return "", len(seen)
}
