package checks

import (
	"fmt"
	"net/url"
	"strings"

	"github.com/volatiletech/authboss/v3"
	"verif/sim"
	"verif/world"
)

var c15Corpus = []string{
	// off-site spellings
	"https://evil.example/x", "http://evil.example", "HtTp://evil.example/", "ftp://evil.example/f", "//evil.example/x", "///evil.example/x", "////evil.example",
	"/\\evil.example/x", "\\/evil.example", "\\\\evil.example\\x", "/\\/evil.example", "/\t/evil.example", "/\n/evil.example", "/\r/evil.example", "\t//evil.example",
	" //evil.example", "\x00//evil.example", "\x1f//evil.example", "\x0b//evil.example", "https:evil.example", "http:evil.example", "https:/evil.example", "http:\\\\evil.example",
	"ht\ttp://evil.example", "h\nttps://evil.example", "//site.test@evil.example/x", "//evil.example\\@site.test", "//evil.example#@site.test", "//evil.example?@site.test",
	"//site.test.evil.example", "//site.test:8443/", "//[::1]/x", "//evil.example:443/", "javascript:alert(1)", "JaVaScRiPt:alert(document.cookie)", "java\tscript:alert(1)",
	"data:text/html,<script>alert(1)</script>", "x-app://open", "//evil.example/" + strings.Repeat("a", 3000), "/\\\t/evil.example", "//\tevil.example", "https://evil.example?x=://",
	"//evil.example/%2F..", "\\\\\\evil.example", "/\x0b/evil.example", "/\x00/evil.example",
	// dot segments: harmless to a browser as they stand, but http.Redirect path.Clean()s the target
	"/./\\evil.example/", "/x/../\\evil.example/x", "/.//evil.example/", "/x/..//evil.example", "/./\\\\evil.example", "/.\\/evil.example", "/..//evil.example", "/a/./../\\evil.example",
	// the same behind a '#' or '?': harmless to a browser as they stand (the rest is fragment / query), but
	// http.Redirect cleans everything up to the first '?' as a path — a '#' is no delimiter to it
	"/.#/../\\evil.example/", "/x#/../\\evil.example/x", "/a/b#/../../\\evil.example", "/#/../\\evil.example/", "/x?/../\\evil.example/", "/x?y=/../\\evil.example", "/#\\evil.example", "/ok#frag/..//evil.example/",
	// absolute and scheme-relative references that name the site's OWN host: a layer that "reduces them to
	// their path" must not end up with a path that is itself off-site
	"https://site.test//evil.example/x", "http://site.test//evil.example", "https://SITE.test//evil.example/", "https://site.test/\\evil.example/x", "//site.test//evil.example/x",
	"https://site.test:443//evil.example", "https://site.test/.//evil.example/", "https://site.test/x/..//evil.example", "https://site.test///evil.example", "https://site.test/\t/evil.example",
	"https://site.test/ok/../\\evil.example", "https://site.test", "https://site.test/after/login",
	// percent-encoded spellings: harmless as they stand (same-site paths), off-site if a layer decodes them
	"/%2Fevil.example/x", "/%2f%2fevil.example", "/%5Cevil.example/x", "/%09/evil.example", "/%0A/evil.example", "%2F%2Fevil.example", "/%252Fevil.example",
	// bytes that are no valid UTF-8: harmless as they stand (a same-site path segment), off-site if a layer
	// drops or replaces them after the guard has looked
	"/\xff/evil.example/", "/\xc0/evil.example/x", "/\xe2\x82/evil.example/", "/\xff\xfe/evil.example", "/\xf0\x9f/\\evil.example/",
	// a same-site target that is itself a login page carrying a return target of its own: what the inner value
	// says is none of the outer redirect's business
	"/auth/login?redir=//evil.example/", "/login?redir=https://evil.example/phish", "/auth/login?x=1&redir=%2F%5Cevil.example%2F", "/a/b/login?redir=//evil.example/&y=2", "/auth/2fa/totp/validate?redir=//evil.example/",
	// benign same-site targets that may be followed
	"/after/login", "/x?y=1&z=2", "/deep/path/here#frag", "/a//b", "/with%20space", "/?next=/inner", "/path:with:colons", "/x?u=http%3A%2F%2Fevil.example",
	"/%2F/evil.example", "/ /evil.example", "/ünï", "/x;param",
}

// c15Pages: the library's own routes (the OAuth2 start is left out: sending the browser to the provider
// is its purpose); logout last, it ends the session the sweep runs in.
var c15Pages = []string{"/login", "/otp/login", "/otp/add", "/otp/clear", "/recover", "/recover/end", "/register", "/2fa/totp/setup", "/2fa/totp/confirm", "/2fa/totp/qr",
	"/2fa/totp/remove", "/2fa/totp/validate", "/2fa/sms/setup", "/2fa/sms/confirm", "/2fa/sms/remove", "/2fa/sms/validate", "/2fa/recovery/regen", "/logout"}

type c15ctx struct {
	c    *RunCtx
	w    *world.World
	unit int
	nb   int
	bad  bool
	seen map[string]bool
}

func (x *c15ctx) browser() *world.Browser { x.nb++; return world.NewBrowser(x.nb) }

// judge one emitted location for a flow whose supplied return target was `supplied`.
func (x *c15ctx) judge(flow, supplied string, rec *world.Rec, final bool, def string) {
	if x.bad {
		return
	}
	x.c.Stats.Evaluations++
	loc := rec.Location
	if loc == "" {
		return
	}
	emitted := loc
	if rec.Header.Get("Location") != "" {
		emitted = onTheWire(loc)
	}
	mode := "header"
	if rec.Header.Get("Location") == "" {
		mode = "json"
	}
	cl := classify(emitted)
	sup := classify(supplied)
	x.c.Stats.Sig(fmt.Sprintf("%s/%s/supplied=%s/%s/emitted=%s/final=%v", flow, mode, sup, spelling(supplied), cl, final))
	x.c.Stats.Count("locations-judged:" + mode)
	if cl == "off" {
		x.fail(rec, vio("C15", fmt.Sprintf("off-site-location-emitted|%s|%s|%s", flow, mode, spelling(supplied)), "flow %s (%s) sent the browser to %q (supplied return target %q), which a browser resolves to another origin", flow, mode, trunc(emitted, 100), trunc(supplied, 100)))
		return
	}
	if final && sup == "off" {
		x.c.Stats.Count("off-site-target-refused")
		if emitted != def {
			x.fail(rec, vio("C15", fmt.Sprintf("off-site-target-not-replaced-by-default|%s|%s", flow, mode), "flow %s: off-site return target %q was not replaced by the configured default %q (emitted %q)", flow, trunc(supplied, 100), def, trunc(emitted, 100)))
		}
	}
	if final && sup == "same" {
		if emitted == supplied || strings.HasPrefix(emitted, supplied) {
			x.c.Stats.Count("benign-target-followed")
		} else {
			x.c.Stats.Count("benign-target-not-followed")
		}
	}
}

func spelling(s string) string {
	t := strings.TrimLeft(s, " \t\r\n\x00\x0b\x1f")
	lead := ""
	if t != s {
		lead = "leading-control+"
	}
	lower := strings.ToLower(t)
	switch {
	case strings.ContainsAny(s, "\t\n\r") && !strings.HasPrefix(lower, "//") && !strings.Contains(lower, "://"):
		return lead + "embedded-tab-or-newline"
	case strings.Contains(lower, "://"):
		return lead + "absolute-url"
	case strings.HasPrefix(t, "//"):
		return lead + "scheme-relative"
	case strings.HasPrefix(t, "/\\") || strings.HasPrefix(t, "\\"):
		return lead + "backslash"
	case strings.HasPrefix(lower, "http:") || strings.HasPrefix(lower, "https:"):
		return lead + "scheme-without-slashes"
	case strings.Contains(lower, "script:") || strings.HasPrefix(lower, "data:") || strings.HasPrefix(lower, "x-app:"):
		return lead + "non-http-scheme"
	case strings.HasPrefix(t, "/"):
		return lead + "site-path"
	}
	return lead + "other"
}

func (x *c15ctx) fail(rec *world.Rec, v *sim.Violation) {
	// keep going: one witness per signature and unit is enough, but all signatures are wanted
	if x.seen == nil {
		x.seen = map[string]bool{}
	}
	if x.seen[v.Sig] {
		return
	}
	x.seen[v.Sig] = true
	x.c.Stats.Violations = append(x.c.Stats.Violations, sim.VioRec{Violation: *v, Index: x.unit, Cfg: x.w.Cfg.String(),
		History: []string{rec.Method + " " + trunc(rec.Target, 200), "body " + trunc(rec.Body, 200)},
		Detail:  fmt.Sprintf("status=%d Location=%q json=%v", rec.Status, rec.Location, rec.JSON)})
}

func c15Unit(c *RunCtx, unit int) {
	if msg := urlclassSelfTest(); msg != "" {
		c.Stats.Inconclusive = append(c.Stats.Inconclusive, msg)
		return
	}
	jsonMode := unit%2 == 1
	mount := []string{"/auth", ""}[(unit/2)%2]
	r := Rng(c.Seed, "C15", unit)
	cfg := world.Cfg{Modules: []string{"auth", "otp", "oauth2", "logout", "recover", "register"}, TwoFA: []string{"totp", "sms"}, Mount: mount, JSON: jsonMode, Providers: []string{"alpha"}, OAuth2Confirmed: true}
	w, err := world.New(cfg, "c15")
	if err != nil {
		c.Stats.Inconclusive = append(c.Stats.Inconclusive, "world: "+err.Error())
		return
	}
	c.Stats.Histories++
	x := &c15ctx{c: c, w: w, unit: unit}
	pw := "Passw0rd!c15"
	otp := "aaaaaaaa-bbbbbbbb-cccccccc-dddddddd"
	tsec := "JBSWY3DPEHPK3PXPJBSWY3DPEHPK3PXP"
	seed := func() {
		w.Store.Put(&world.User{PID: "plain@site.test", Email: "plain@site.test", Password: sim.Hash4(pw), Confirmed: true, OTPs: sim.Sha512B64(otp)})
		w.Store.Put(&world.User{PID: "totp@site.test", Email: "totp@site.test", Password: sim.Hash4(pw), Confirmed: true, TOTPSecretKey: tsec})
		w.Store.Put(&world.User{PID: "sms@site.test", Email: "sms@site.test", Password: sim.Hash4(pw), Confirmed: true, SMSPhone: "+15550001"})
	}
	corpus := append([]string(nil), c15Corpus...)
	if c.Tier == "thorough" { // seeded compositions: prefix x separator x host x suffix
		pre := []string{"", " ", "\t", "\x00", "\x1f", "\n"}
		sep := []string{"//", "/\\", "\\/", "\\\\", "///", "/\t/", "/\n/", "https:", "http:/", "HTTPS://", "//\t", "/\\\\"}
		host := []string{"evil.example", "site.test@evil.example", "evil.example:80", "[::1]", "site.test.evil.example", "evil.example\\@site.test"}
		suf := []string{"", "/", "/x?y", "#f", "/%2e%2e"}
		for i := 0; i < 400; i++ {
			corpus = append(corpus, pre[r.Intn(len(pre))]+sep[r.Intn(len(sep))]+host[r.Intn(len(host))]+suf[r.Intn(len(suf))])
		}
	}
	P := w.P
	for ri, R := range corpus {
		if ri%4 != (unit/4)%4 {
			continue // another unit's slice
		}
		if x.bad {
			return
		}
		seed()
		// --- password login: redir in the body and in the query
		for _, where := range []string{"body", "query", "query-twice-safe-first", "query-twice-safe-last", "body-safe-query-R", "body-R-query-safe", "body-empty-query-R"} {
			b := x.browser()
			rq := world.Req{Method: "POST", Path: P("/login"), Form: map[string]string{"email": "plain@site.test", "password": pw}}
			switch where {
			case "body":
				rq.Form["redir"] = R
			case "query":
				rq.Path += "?redir=" + url.QueryEscape(R)
			case "query-twice-safe-first":
				rq.Path += "?redir=%2Fwelcome&redir=" + url.QueryEscape(R)
			case "query-twice-safe-last":
				rq.Path += "?redir=" + url.QueryEscape(R) + "&redir=%2Fwelcome"
			case "body-safe-query-R":
				rq.Form["redir"] = "/welcome"
				rq.Path += "?redir=" + url.QueryEscape(R)
			case "body-R-query-safe":
				rq.Form["redir"] = R
				rq.Path += "?redir=%2Fwelcome"
			case "body-empty-query-R":
				// a login form whose hidden redir field is posted empty while the page's own URL carries one
				rq.Form["redir"] = ""
				rq.Path += "?redir=" + url.QueryEscape(R)
			}
			rec := w.Do(b, rq)
			if rec.SessOut["uid"] == "" {
				c.Stats.Inconclusive = append(c.Stats.Inconclusive, "setup: plain login failed: "+rec.HandlerErr)
				return
			}
			x.judge("login-"+where, R, rec, where == "body" || where == "query", world.PathLoginOK)
		}
		// --- one-time password login
		{
			b := x.browser()
			rec := w.Do(b, world.Req{Method: "POST", Path: P("/otp/login"), Form: map[string]string{"email": "plain@site.test", "password": otp, "redir": R}})
			x.judge("otp-login", R, rec, rec.SessOut["uid"] != "", world.PathLoginOK)
		}
		// --- TOTP: the login's query string is carried to the validate page, which follows redir
		{
			b := x.browser()
			q := "?redir=" + url.QueryEscape(R)
			rec := w.Do(b, world.Req{Method: "POST", Path: P("/login") + q, Form: map[string]string{"email": "totp@site.test", "password": pw}})
			x.judge("totp-hijack", R, rec, false, "")
			next := P("/2fa/totp/validate") + q
			rec = w.Do(b, world.Req{Method: "POST", Path: next, Form: map[string]string{"code": sim.TOTPNow(tsec)}})
			x.judge("totp-validate", R, rec, rec.SessOut["uid"] != "", world.PathLoginOK)
			// and with redir in the validate body
			b = x.browser()
			w.Do(b, world.Req{Method: "POST", Path: P("/login"), Form: map[string]string{"email": "totp@site.test", "password": pw}})
			rec = w.Do(b, world.Req{Method: "POST", Path: P("/2fa/totp/validate"), Form: map[string]string{"code": sim.TOTPNow(tsec), "redir": R}})
			x.judge("totp-validate-body", R, rec, rec.SessOut["uid"] != "", world.PathLoginOK)
			// the validate form as a browser posts it after the hijack redirect: query carried over, the
			// form's own (empty) redir field in the body
			b = x.browser()
			w.Do(b, world.Req{Method: "POST", Path: P("/login") + q, Form: map[string]string{"email": "totp@site.test", "password": pw}})
			rec = w.Do(b, world.Req{Method: "POST", Path: next, Form: map[string]string{"code": sim.TOTPNow(tsec), "redir": ""}})
			x.judge("totp-validate-empty-body-field", R, rec, false, world.PathLoginOK)
		}
		// --- TOTP / SMS: return target posted in the BODY of the password step, none at the second step
		{
			b := x.browser()
			rec := w.Do(b, world.Req{Method: "POST", Path: P("/login"), Form: map[string]string{"email": "totp@site.test", "password": pw, "redir": R}})
			x.judge("totp-hijack-body", R, rec, false, "")
			rec = w.Do(b, world.Req{Method: "POST", Path: P("/2fa/totp/validate"), Form: map[string]string{"code": sim.TOTPNow(tsec)}})
			x.judge("totp-validate-after-body-redir", R, rec, false, "")
			b = x.browser()
			rec = w.Do(b, world.Req{Method: "POST", Path: P("/login"), Form: map[string]string{"email": "sms@site.test", "password": pw, "redir": R}})
			x.judge("sms-hijack-body", R, rec, false, "")
			code := ""
			if n := len(w.SMSs); n > 0 {
				code = w.SMSs[n-1].Text
			}
			rec = w.Do(b, world.Req{Method: "POST", Path: P("/2fa/sms/validate"), Form: map[string]string{"code": code}})
			x.judge("sms-validate-after-body-redir", R, rec, false, "")
		}
		// --- SMS
		{
			b := x.browser()
			q := "?redir=" + url.QueryEscape(R)
			rec := w.Do(b, world.Req{Method: "POST", Path: P("/login") + q, Form: map[string]string{"email": "sms@site.test", "password": pw}})
			x.judge("sms-hijack", R, rec, false, "")
			code := ""
			if n := len(w.SMSs); n > 0 {
				code = w.SMSs[n-1].Text
			}
			rec = w.Do(b, world.Req{Method: "POST", Path: P("/2fa/sms/validate") + q, Form: map[string]string{"code": code}})
			x.judge("sms-validate", R, rec, rec.SessOut["uid"] != "", world.PathLoginOK)
		}
		// --- OAuth2: the start request's redir is carried through the round trip
		{
			b := x.browser()
			rec := w.Do(b, world.Req{Method: "GET", Path: P("/oauth2/alpha") + "?redir=" + url.QueryEscape(R)})
			st := ""
			if u, err := url.Parse(rec.Location); err == nil {
				st = u.Query().Get("state")
			}
			code := w.Prov.Authorize(world.Identity{Provider: "alpha", UID: "u1", Email: "u1@alpha.test"})
			rec = w.Do(b, world.Req{Method: "GET", Path: P("/oauth2/callback/alpha") + "?state=" + url.QueryEscape(st) + "&code=" + url.QueryEscape(code)})
			x.judge("oauth2-callback", R, rec, rec.SessOut["uid"] != "", world.PathOAuth2OK)
			// the same with further pass-through parameters (they are appended to the target as a query)
			b = x.browser()
			rec = w.Do(b, world.Req{Method: "GET", Path: P("/oauth2/alpha") + "?redir=" + url.QueryEscape(R) + "&utm=1&lang=fr"})
			st = ""
			if u, err := url.Parse(rec.Location); err == nil {
				st = u.Query().Get("state")
			}
			code = w.Prov.Authorize(world.Identity{Provider: "alpha", UID: "u1", Email: "u1@alpha.test"})
			rec = w.Do(b, world.Req{Method: "GET", Path: P("/oauth2/callback/alpha") + "?state=" + url.QueryEscape(st) + "&code=" + url.QueryEscape(code)})
			x.judge("oauth2-callback-with-extra-params", R, rec, false, world.PathOAuth2OK)
			// the parameter given twice, a harmless value and R in either order: whichever of the two the
			// library goes by, the browser stays on site
			for _, dup := range []struct{ flow, q string }{
				{"oauth2-callback-redir-twice-safe-first", "?redir=%2Fwelcome&redir=" + url.QueryEscape(R)},
				{"oauth2-callback-redir-twice-safe-last", "?redir=" + url.QueryEscape(R) + "&redir=%2Fwelcome"},
			} {
				b = x.browser()
				rec = w.Do(b, world.Req{Method: "GET", Path: P("/oauth2/alpha") + dup.q})
				st = ""
				if u, err := url.Parse(rec.Location); err == nil {
					st = u.Query().Get("state")
				}
				code = w.Prov.Authorize(world.Identity{Provider: "alpha", UID: "u1", Email: "u1@alpha.test"})
				rec = w.Do(b, world.Req{Method: "GET", Path: P("/oauth2/callback/alpha") + "?state=" + url.QueryEscape(st) + "&code=" + url.QueryEscape(code)})
				x.judge(dup.flow, R, rec, false, world.PathOAuth2OK)
			}
			// the round trips that do NOT end in a login: the provider reports an error (the user declined),
			// the code is refused, the state is wrong — wherever the browser is sent then, it stays on site
			for _, tail := range []struct{ flow, q string }{
				{"oauth2-callback-provider-error", "&error=access_denied&error_description=declined"},
				{"oauth2-callback-provider-error-and-code", "&error=access_denied&code=" + url.QueryEscape(w.Prov.Authorize(world.Identity{Provider: "alpha", UID: "u1", Email: "u1@alpha.test"}))},
				{"oauth2-callback-refused-code", "&code=not-a-code"},
			} {
				b = x.browser()
				rec = w.Do(b, world.Req{Method: "GET", Path: P("/oauth2/alpha") + "?redir=" + url.QueryEscape(R)})
				st = ""
				if u, err := url.Parse(rec.Location); err == nil {
					st = u.Query().Get("state")
				}
				rec = w.Do(b, world.Req{Method: "GET", Path: P("/oauth2/callback/alpha") + "?state=" + url.QueryEscape(st) + tail.q})
				x.judge(tail.flow, R, rec, false, world.PathOAuth2NotOK)
			}
		}
		// --- the access middleware's own redirect: a hostile PATH becomes the redir of the login page
		if strings.HasPrefix(R, "/") && !strings.ContainsAny(R, "\x00\x0b\x1f \t\r\n?#") {
			h := w.AB.LoadClientStateMiddleware(authboss.Middleware2(w.AB, authboss.RequireNone, authboss.RespondRedirect)(w.ProbeHandler("c15")))
			b := x.browser()
			rec := w.DoOn(h, b, world.Req{Method: "GET", Path: R})
			if rec.Status > 0 {
				x.judge("middleware-redirect", R, rec, false, "")
				if u, err := url.Parse(rec.Location); err == nil {
					if carried := u.Query().Get("redir"); carried != "" {
						rec = w.Do(b, world.Req{Method: "POST", Path: P("/login"), Form: map[string]string{"email": "plain@site.test", "password": pw, "redir": carried}})
						x.judge("login-after-middleware-redirect", carried, rec, true, world.PathLoginOK)
					}
				}
			}
		}
		// --- page sweep: every page and form handler of the library asked for with a return target in the
		// query (and, for forms, in the body too) by an anonymous browser, a logged-in one and one half way
		// through a TOTP login; none of these requests completes a login, so wherever the browser is sent,
		// it is somewhere on the site
		for _, kind := range []string{"anon", "user", "pending"} {
			b := x.browser()
			switch kind {
			case "user":
				w.Do(b, world.Req{Method: "POST", Path: P("/login"), Form: map[string]string{"email": "plain@site.test", "password": pw}})
			case "pending":
				w.Do(b, world.Req{Method: "POST", Path: P("/login"), Form: map[string]string{"email": "totp@site.test", "password": pw}})
			}
			for _, rt := range c15Pages {
				methods := []string{"GET", "POST"}
				if rt == "/logout" {
					methods = []string{"GET", "POST", "DELETE"}
				}
				for _, m := range methods {
					rq := world.Req{Method: m, Path: P(rt) + "?redir=" + url.QueryEscape(R)}
					if m == "POST" {
						rq.Form = map[string]string{"redir": R}
					}
					rec := w.Do(b, rq)
					x.judge("page-"+kind+"-"+m+"-"+rt, R, rec, false, "")
				}
			}
		}
	}
	if !x.bad {
		c.Stats.Sample(map[string]interface{}{"unit": unit, "mode": modeOf(cfg), "mount": mount, "corpus_size": len(corpus), "examples": []string{"//evil.example/x", "/\\evil.example/x", "/\\t/evil.example", "https:evil.example", "/after/login"}})
	}
}

func init() {
	register(&Check{
		ID: "C15", Level: "exploration",
		Rule:  "a corpus of ~60 return-target spellings (absolute URLs in several schemes and cases, '//h', '///h', '/\\h', '\\/h', '\\\\h', embedded TAB/LF/CR, leading space/NUL/controls, 'https:h', 'http:/h', userinfo and backslash-userinfo tricks, ports, IPv6, javascript:/data:/custom schemes, 3 KB values, plus benign same-site paths; thorough adds 400 seeded prefix x separator x host x suffix compositions) x every flow that follows the parameter (password login with redir in body and in query, OTP login, TOTP and SMS second step incl. the hijack redirect that carries the query, OAuth2 start→callback, the access middleware's own redirect followed by the login it leads to; plus a page sweep: every page and form handler the library mounts (login, otp, recover, register, all 2fa pages, logout; not the OAuth2 start) requested by GET and POST with the target in the query and the body by an anonymous browser, a logged-in one and one half way through a TOTP login) x form and JSON mode x two mount paths. Every emitted Location header (as net/http puts it on the wire) and JSON 'location' is classified by a WHATWG-faithful resolver against https and http deployments of the site (the resolver has a 75-row self-test run before every unit): it must never be another origin, and an off-site supplied value must be replaced by the configured default. distinct_nontrivial = distinct (flow, header/json, class of supplied value, spelling family, class of emitted value, final step) signatures.",
		Units: func(t string) int { return 16 }, // 2 modes x 2 mounts x 4 slices of the corpus
		Run:   c15Unit,
		Floors: func(t string) map[string]int {
			return map[string]int{"locations-judged:header": 500, "locations-judged:json": 500, "benign-target-followed": 50}
		},
		Assumptions: []string{"'off-site' is what a WHATWG-conforming browser resolves to another origin against either an https or an http deployment; javascript:/data:/custom schemes count as off-site; values the parser rejects outright (no navigation) count as harmless"},
	})
}
