package checks

import (
	"context"
	"fmt"
	"net/url"
	"regexp"
	"strings"
	"sync"
	"time"

	authboss "github.com/volatiletech/authboss/v3"

	"verif/sim"
	"verif/world"
)

// c06Unit: establish remember cookies for the target and a bystander, change the target's
// password (recovery or programmatic update), then interrogate the system with real requests.
// passwordBurst: G accounts change their passwords at the same moment (Authboss.UpdatePassword on one
// instance, real hasher, a locked copying storer), R rounds; after each round every stored hash must
// verify its own account's new password and nobody else's, nor the previous one. Returns the first
// discrepancy and the number of hashes checked.
func passwordBurst(seed int64, G, R int) (string, int) {
	srv, err := newC20Server(seed, false, false, false)
	if err != nil {
		return "", 0
	}
	defer srv.close()
	pid := func(g int) string { return fmt.Sprintf("burst%d@site.test", g) }
	for g := 0; g < G; g++ {
		srv.store.Put(&world.User{PID: pid(g), Email: pid(g), Password: sim.Hash4("Initial0!pw"), Confirmed: true})
	}
	checked := 0
	for round := 0; round < R; round++ {
		pw := func(g int) string { return fmt.Sprintf("R%d-G%d-Burst!pw%s", round, g, strings.Repeat("x", g%7)) }
		errs := make([]error, G)
		var wg sync.WaitGroup
		start := make(chan struct{})
		for g := 0; g < G; g++ {
			wg.Add(1)
			go func(g int) {
				defer wg.Done()
				u, err := srv.store.Load(context.Background(), pid(g))
				if err != nil {
					errs[g] = err
					return
				}
				<-start
				errs[g] = srv.ab.UpdatePassword(context.Background(), u.(authboss.AuthableUser), pw(g))
			}(g)
		}
		close(start)
		wg.Wait()
		for g := 0; g < G; g++ {
			if errs[g] != nil {
				continue // a refused change is judged by the sequential part of the check
			}
			u := srv.store.Peek(pid(g))
			if u == nil {
				return fmt.Sprintf("account %s vanished", pid(g)), checked
			}
			checked++
			if !sim.BcryptOK(u.Password, pw(g)) {
				return fmt.Sprintf("after %d accounts changed their passwords at the same moment (round %d) the stored hash of %s does not verify its own new password", G, round, pid(g)), checked
			}
			for _, o := range []int{(g + 1) % G, (g + G - 1) % G, (g + G/2) % G} {
				if o != g && sim.BcryptOK(u.Password, pw(o)) {
					return fmt.Sprintf("after %d accounts changed their passwords at the same moment (round %d) the stored hash of %s verifies the new password of %s", G, round, pid(g), pid(o)), checked
				}
			}
		}
	}
	return "", checked
}

var c06MailTok = regexp.MustCompile(`token=([A-Za-z0-9_%=-]+)`)

// c06LoginOverlapsChange: a login with the OLD password is in flight (suspended before each of its backend
// calls in turn) while the recovery of the same account runs to completion. No module that saves the user
// during a login is loaded, so whatever the login does afterwards, the change stands: the stored hash
// verifies the new password only, a later login with the old one fails, with the new one succeeds.
// In half of the units the configured bcrypt cost is above the cost of the stored hashes.
func c06LoginOverlapsChange(c *RunCtx, unit int) {
	cfg := world.Cfg{Modules: []string{"auth", "recover", "logout"}, Mount: "/auth", JSON: (unit/16)%2 == 1, RecoverTTL: time.Hour, BCryptCost: []int{0, 5}[(unit/8)%2]}
	w, err := world.New(cfg, "c06-overlap")
	if err != nil {
		c.Stats.Inconclusive = append(c.Stats.Inconclusive, "world: "+err.Error())
		return
	}
	pid, oldPw, newPw := "overlap@site.test", "0ldPassw0rd!", "N3wPassw0rd!"
	w.Store.Put(&world.User{PID: pid, Email: pid, Password: sim.Hash4(oldPw), Confirmed: true})
	bL, bR := world.NewBrowser(1), world.NewBrowser(2)
	w.Do(bR, world.Req{Method: "POST", Path: w.P("/recover"), Form: map[string]string{"email": pid}})
	tok := ""
	if n := len(w.Mails); n > 0 {
		if m := c06MailTok.FindStringSubmatch(w.Mails[n-1].Email.TextBody); m != nil {
			tok, _ = url.QueryUnescape(m[1])
		}
	}
	if tok == "" {
		c.Stats.Inconclusive = append(c.Stats.Inconclusive, "c06 overlap: no recovery mail")
		return
	}
	base := w.SaveState()
	for at := 0; at < 8; at++ {
		w.LoadState(base)
		l, r := bL.Clone(), bR.Clone()
		var inner *world.Rec
		w.YieldedAt = nil
		w.Yield = map[int]func(){at: func() {
			inner = w.Do(r, world.Req{Method: "POST", Path: w.P("/recover/end"), Form: map[string]string{"token": tok, "password": newPw, "confirm_password": newPw}})
		}}
		w.Do(l, world.Req{Method: "POST", Path: w.P("/login"), Form: map[string]string{"email": pid, "password": oldPw}})
		w.Yield = nil
		if inner == nil {
			break // the login makes fewer backend calls than that
		}
		c.Stats.Evaluations++
		if u := inner.After.Users[pid]; u == nil || !sim.BcryptOK(u.Password, newPw) || inner.HandlerErr != "" {
			continue // the change itself did not go through: nothing to demand
		}
		c.Stats.Count("old-password-login-overlapping-the-change")
		c.Stats.Sig(fmt.Sprintf("overlap/change-before-%s#%d/cost=%d/%s", w.YieldedAt[0], at, cfg.BCryptCost, modeOf(cfg)))
		bad := ""
		if u := w.Store.Peek(pid); u == nil || !sim.BcryptOK(u.Password, newPw) || sim.BcryptOK(u.Password, oldPw) {
			bad = "the stored hash does not verify the new password only"
		} else if rec := w.Do(world.NewBrowser(3), world.Req{Method: "POST", Path: w.P("/login"), Form: map[string]string{"email": pid, "password": oldPw}}); rec.SessOut["uid"] != "" {
			bad = "the old password still logs in"
		} else if rec := w.Do(world.NewBrowser(4), world.Req{Method: "POST", Path: w.P("/login"), Form: map[string]string{"email": pid, "password": newPw}}); rec.SessOut["uid"] != pid {
			bad = "the new password does not log in"
		}
		if bad != "" {
			v := vio("C06", "change-undone-by-overlapping-login", "a password recovery completed while a login with the old password was in flight (suspended before its backend call #%d, %s; configured bcrypt cost %d, stored cost 4): afterwards %s", at, w.YieldedAt[0], w.AB.Config.Modules.BCryptCost, bad)
			c.Stats.Violations = append(c.Stats.Violations, sim.VioRec{Violation: *v, Index: unit, Cfg: cfg.String(), History: []string{"POST /recover", "L: POST /login (old password) suspended", "R: POST /recover/end (new password)", "L resumes"}})
			w.LoadState(base)
			return
		}
	}
	w.LoadState(base)
}

// c06ConfiguredHasher: the application configured a hasher of its own (Config.Core.Hasher): after a
// programmatic update and after a recovery the stored value is a hash of THAT hasher which verifies the new
// password only, the old password no longer logs in and the new one does.
func c06ConfiguredHasher(c *RunCtx, unit int) {
	cfg := world.Cfg{Modules: []string{"auth", "recover", "logout", "remember"}, Mount: "/auth", JSON: (unit/16)%2 == 1, RecoverTTL: time.Hour, CustomHasher: true, RecoverLogin: (unit/32)%2 == 1}
	w, err := world.New(cfg, "c06-hasher")
	if err != nil {
		c.Stats.Inconclusive = append(c.Stats.Inconclusive, "world: "+err.Error())
		return
	}
	pid := "hasher@site.test"
	pws := []string{"0ldPassw0rd!", "Upd4ted!passw", "R3covered!pass"}
	w.Store.Put(&world.User{PID: pid, Email: pid, Password: w.HashPw(pws[0]), Confirmed: true})
	logsIn := func(n int, pw string) bool {
		rec := w.Do(world.NewBrowser(n), world.Req{Method: "POST", Path: w.P("/login"), Form: map[string]string{"email": pid, "password": pw}})
		return rec.SessOut["uid"] == pid
	}
	if !logsIn(1, pws[0]) {
		c.Stats.Inconclusive = append(c.Stats.Inconclusive, "c06 hasher: seeded password does not log in")
		return
	}
	judge := func(via string, old, now string, n int) bool {
		c.Stats.Evaluations++
		c.Stats.Count("changes-under-a-configured-hasher:" + via)
		u := w.Store.Peek(pid)
		bad := ""
		switch {
		case u == nil:
			bad = "the account vanished"
		case u.Password == now || strings.Contains(u.Password, now):
			bad = "the stored value contains the plaintext"
		case !w.VerifyPw(u.Password, now):
			bad = "the stored value is not a hash of the configured hasher that verifies the new password"
		case w.VerifyPw(u.Password, old):
			bad = "the stored hash still verifies the old password"
		case logsIn(n, old):
			bad = "the old password still logs in"
		case !logsIn(n+1, now):
			bad = "the new password does not log in"
		}
		if bad != "" {
			v := vio("C06", "configured-hasher|"+via, "with an application-supplied Config.Core.Hasher, after a password change via %s: %s", via, bad)
			c.Stats.Violations = append(c.Stats.Violations, sim.VioRec{Violation: *v, Index: unit, Cfg: cfg.String(), History: []string{"change via " + via}})
			return false
		}
		return true
	}
	if rec := w.AdminUpdatePassword(pid, pws[1]); rec.AdminErr != "" {
		c.Stats.Inconclusive = append(c.Stats.Inconclusive, "c06 hasher: UpdatePassword failed: "+rec.AdminErr)
		return
	}
	if !judge("update", pws[0], pws[1], 10) {
		return
	}
	w.Do(world.NewBrowser(20), world.Req{Method: "POST", Path: w.P("/recover"), Form: map[string]string{"email": pid}})
	tok := ""
	if n := len(w.Mails); n > 0 {
		if m := c06MailTok.FindStringSubmatch(w.Mails[n-1].Email.TextBody); m != nil {
			tok, _ = url.QueryUnescape(m[1])
		}
	}
	if tok == "" {
		c.Stats.Inconclusive = append(c.Stats.Inconclusive, "c06 hasher: no recovery mail")
		return
	}
	w.Do(world.NewBrowser(21), world.Req{Method: "POST", Path: w.P("/recover/end"), Form: map[string]string{"token": tok, "password": pws[2], "confirm_password": pws[2]}})
	judge("recover", pws[1], pws[2], 30)
}

// c06SpentCookieAfterChange: "every remember-me token issued to that account before the change stops working" —
// the rotated-away (spent) value of a cookie included, immediately after the change and later: T1 is issued at
// login, copied, rotated to T2 by a session-less visit; then the password changes; then the copy of T1 and T2
// are presented from session-less browsers. Neither authenticates, and no token row exists for the account.
func c06SpentCookieAfterChange(c *RunCtx, unit int) {
	via := []string{"update", "recover"}[(unit/8)%2]
	cfg := world.Cfg{Modules: []string{"auth", "remember", "recover", "logout"}, Mount: "/auth", JSON: (unit/16)%2 == 1, RecoverTTL: time.Hour}
	w, err := world.New(cfg, "c06-spent-cookie")
	if err != nil {
		c.Stats.Inconclusive = append(c.Stats.Inconclusive, "world: "+err.Error())
		return
	}
	pid, oldPw, newPw := "rotated@site.test", "0ldPassw0rd!", "N3wPassw0rd!"
	w.Store.Put(&world.User{PID: pid, Email: pid, Password: sim.Hash4(oldPw), Confirmed: true})
	b := world.NewBrowser(1)
	w.Do(b, world.Req{Method: "POST", Path: w.P("/login"), Form: map[string]string{"email": pid, "password": oldPw, "rm": "true"}})
	t1 := b.Jar["rm"]
	delete(b.Jar, world.SidCookie)
	w.Do(b, world.Req{Method: "GET", Path: "/public"})
	t2 := b.Jar["rm"]
	if t1 == "" || t2 == "" || t1 == t2 {
		c.Stats.Inconclusive = append(c.Stats.Inconclusive, "c06 spent cookie: no rotation observed")
		return
	}
	if via == "update" {
		if rec := w.AdminUpdatePassword(pid, newPw); rec.AdminErr != "" {
			c.Stats.Inconclusive = append(c.Stats.Inconclusive, "c06 spent cookie: UpdatePassword failed")
			return
		}
	} else {
		w.Do(world.NewBrowser(2), world.Req{Method: "POST", Path: w.P("/recover"), Form: map[string]string{"email": pid}})
		tok := ""
		if n := len(w.Mails); n > 0 {
			if m := c06MailTok.FindStringSubmatch(w.Mails[n-1].Email.TextBody); m != nil {
				tok, _ = url.QueryUnescape(m[1])
			}
		}
		w.Do(world.NewBrowser(3), world.Req{Method: "POST", Path: w.P("/recover/end"), Form: map[string]string{"token": tok, "password": newPw, "confirm_password": newPw}})
	}
	if u := w.Store.Peek(pid); u == nil || !sim.BcryptOK(u.Password, newPw) {
		c.Stats.Inconclusive = append(c.Stats.Inconclusive, "c06 spent cookie: the change did not go through")
		return
	}
	n := 10
	for _, when := range []time.Duration{0, 5 * time.Second, 6 * time.Second, time.Minute} {
		w.Advance(when)
		for _, ck := range []struct{ what, val string }{{"the rotated-away value", t1}, {"the current value", t2}} {
			n++
			x := world.NewBrowser(n)
			x.Jar["rm"] = ck.val
			rec := w.Do(x, world.Req{Method: "GET", Path: "/protected/bare"})
			c.Stats.Evaluations++
			c.Stats.Count("pre-change-cookies-presented-after-the-change")
			if rec.SessOut["uid"] != "" || rec.Probe.UID != "" || len(w.Store.Tokens(pid)) != 0 {
				v := vio("C06", "pre-change-cookie-works-after-change|"+via+"|"+strings.Fields(ck.what)[1], "%s of a remember cookie issued before the password change (via %s), presented %s after it from a session-less browser: session uid=%q, page served as %q, %d token rows stored", ck.what, via, when, rec.SessOut["uid"], rec.Probe.UID, len(w.Store.Tokens(pid)))
				c.Stats.Violations = append(c.Stats.Violations, sim.VioRec{Violation: *v, Index: unit, Cfg: cfg.String(), History: []string{"login rm=true → T1", "session-less visit → T2", "password change via " + via, "present " + ck.what}})
				return
			}
		}
	}
}

func c06Unit(c *RunCtx, unit int) {
	if unit%8 == 2 {
		c06SpentCookieAfterChange(c, unit)
	}
	if unit%8 == 6 {
		c06ConfiguredHasher(c, unit)
	}
	if unit%8 == 4 {
		c06LoginOverlapsChange(c, unit)
	}
	if unit%40 == 0 {
		// "no other account's password is affected" — also when many accounts change theirs at once
		if msg, n := passwordBurst(c.Seed*1000+int64(unit), 16, 60); msg != "" {
			c.Stats.Violations = append(c.Stats.Violations, sim.VioRec{Violation: *vio("C06", "concurrent-changes-cross-talk", "%s", msg), Index: unit})
		} else {
			c.Stats.Add("hashes-checked-after-concurrent-changes", n)
		}
	}
	r := Rng(c.Seed, "C06", unit)
	mods := []string{"auth", "recover", "logout"}
	rememberLoaded := r.Intn(4) != 0
	if rememberLoaded {
		mods = append(mods, "remember")
	}
	if r.Intn(3) == 0 {
		mods = append(mods, "otp")
	}
	if r.Intn(2) == 0 {
		mods = append(mods, "lock") // its login hooks save the user of a recover-and-login a second time
	}
	cfg := world.Cfg{Modules: shuffled(r, mods), Mount: pickS(r, "/auth", "/a/b"), JSON: r.Intn(3) == 0, RecoverLogin: r.Intn(2) == 0,
		Err500: r.Intn(2) == 0, LogoutMethod: "DELETE", Secondary: r.Intn(4) == 0, FoldPIDs: r.Intn(3) == 0}
	s, err := sim.New(cfg, r, sim.SeedOpt{Accounts: 3, Browsers: 5})
	if err != nil {
		c.Stats.Inconclusive = append(c.Stats.Inconclusive, "world: "+err.Error())
		return
	}
	c.Stats.Histories++
	bad := false
	var last *sim.Step
	fail := func(sig, format string, args ...interface{}) {
		if bad {
			return
		}
		bad = true
		v := vio("C06", sig, format, args...)
		d := ""
		if last != nil {
			d = sim.Detail(last)
		}
		c.Stats.Violations = append(c.Stats.Violations, sim.VioRec{Violation: *v, Index: unit, Cfg: s.Cfg.String(), History: tail(s.Hist, 40), Detail: d})
	}
	step := func(a *sim.Action) *sim.Step {
		st := s.Exec(a)
		c.Stats.Evaluations++
		s.Learn(st)
		last = st
		return st
	}
	target, other := r.Intn(3), 0
	other = (target + 1 + r.Intn(2)) % 3
	U, V := s.Accts[target], s.Accts[other]

	for round := 0; round < 2 && !bad; round++ {
		// remember cookies: browsers 0..k-1 for U, browser 3 for V; browser 4 stays clean
		k := 0
		if rememberLoaded {
			k = r.Intn(4)
			for b := 0; b < k; b++ {
				step(act("dropsid", b, -9, ""))
				la := act("login", b, target, "ok", "rm", "true")
				if cfg.FoldPIDs && r.Intn(2) == 0 {
					la.Opt["spell"] = "flipcase" // typed in another spelling; the user table finds the account all the same
				}
				st := step(la)
				if !strings.EqualFold(st.UIDOut, U.PID) {
					fail("setup-login-failed", "setup: correct password of %q did not log in", U.PID)
					return
				}
			}
			step(act("dropsid", 3, -9, ""))
			step(act("login", 3, other, "ok", "rm", "true"))
		}
		if !rememberLoaded {
			// another instance over the same user table (or remember.Middleware used stand-alone) may
			// have issued tokens: UpdatePassword documents that it invalidates them whenever the storer
			// supports it
			s.W.Store.PutTokens(U.PID, []string{sim.Sha512B64("foreign-instance-token-u"), sim.Sha512B64("foreign-instance-token-u2")})
			s.W.Store.PutTokens(V.PID, []string{sim.Sha512B64("foreign-instance-token-v")})
		}
		jars := make([]string, 6)
		for b := 0; b < 5; b++ {
			jars[b] = s.Br[b].B.Jar["rm"]
		}
		oldPw := U.Pw
		newCls := pickS(r, "fresh", "fresh", "same", "long73", "long72", "long71", "nonascii", "nul", "one", "weak", "hashshaped", "wsends")
		via := pickS(r, "recover", "recover", "update")
		var ch *sim.Step
		usedTok := ""
		// interleaving: while the change is in flight (before its i-th backend call) a login with the OLD
		// password and rm=true runs to completion on browser 2 (its cookie jar is emptied first). A login
		// that the old password still authenticates happened before the change, so its cookie has to be
		// dead afterwards like every other.
		var inner *world.Rec
		innerCookie := ""
		yieldAt, innerRows := -1, 0
		s.W.YieldedAt = nil
		arm := func() {}
		if rememberLoaded && r.Intn(2) == 0 {
			yieldAt = r.Intn(7)
			pid, pw := U.PID, U.Pw
			arm = func() {
				s.W.Yield = map[int]func(){yieldAt: func() {
					bb := s.Br[2].B
					delete(bb.Jar, "rm")
					delete(bb.Jar, world.SidCookie)
					inner = s.W.Do(bb, world.Req{Method: "POST", Path: s.W.P("/login"), Form: map[string]string{"email": pid, "password": pw, "rm": "true"}})
					innerCookie = bb.Jar["rm"]
				}}
			}
		}
		if yieldAt < 0 && r.Intn(4) == 0 {
			// the token purge fails: a change that nevertheless reports success owes everything a
			// successful change owes; one that ends in an error outcome is C18's business
			arm = func() { s.W.FaultOps = map[string]error{"DelRememberTokens": errGeneric} }
		}
		if via == "recover" {
			// the link is opened on a clean browser, or on one that carries the bystander's session
			rb := 4
			if rememberLoaded && r.Intn(2) == 0 {
				rb = 3
			}
			step(act("recover_start", 4, target, ""))
			a := act("recover_end", rb, target, "current")
			a.Cls2 = newCls
			arm()
			ch = step(a)
			usedTok = a.Secret
		} else {
			a := act("admin_updatepw", 0, target, "")
			a.Cls2 = newCls
			arm()
			ch = step(a)
		}
		newPw := ch.Act.Secret2
		if via == "update" {
			newPw = ch.Act.Secret
		}
		if inner != nil {
			at := "?"
			if len(s.W.YieldedAt) > 0 {
				at = s.W.YieldedAt[0]
			}
			if inner.SessOut["uid"] == U.PID && innerCookie != "" {
				c.Stats.Count("login-with-old-password-interleaved-before:" + at)
			} else {
				c.Stats.Count("interleaved-login-refused-before:" + at)
				innerCookie = ""
			}
			c.Stats.Sig(fmt.Sprintf("interleaved/%s/before-%s/%v", via, at, innerCookie != ""))
			if innerCookie != "" && sim.PwEquiv(oldPw, newPw) {
				// old and new password are the same credential: the interleaved login may just as well have
				// happened after the change, its cookie may live
				innerCookie, innerRows = "", 1
				c.Stats.Count("interleaved-login-same-password-not-judged")
			}
		}
		if ch.Rec.FaultsFired > 0 {
			if ch.Rec.HandlerErr != "" || ch.Rec.AdminErr != "" || ch.Rec.Status >= 500 || ch.Rec.Panic != "" {
				c.Stats.Count("change-ended-in-error-under-purge-fault:" + via)
				continue
			}
			c.Stats.Count("change-reported-success-under-purge-fault:" + via)
		}
		// the storage delta of the change itself: what the interleaved login did is not the change's doing
		chDiff := ch.Rec.Diff()
		if inner != nil {
			mine := map[world.Change]bool{}
			for _, d := range inner.Diff() {
				mine[d] = true
			}
			var rest []world.Change
			for _, d := range chDiff {
				if !mine[d] {
					rest = append(rest, d)
				}
			}
			chDiff = rest
		}
		changed := false
		for _, d := range chDiff {
			if d.PID == U.PID && d.Field == "Password" {
				changed = true
			}
		}
		expectChange := hashable(newPw) && (via == "update" || defaultPwOK(newPw))
		sig := fmt.Sprintf("%s/new=%s/cookies=%d/remember=%v/loginafter=%v/%s/changed=%v", via, newCls, k, rememberLoaded, cfg.RecoverLogin, modeOf(cfg), changed)
		c.Stats.Sig(sig)
		if changed != expectChange {
			if expectChange {
				fail("change-not-applied|"+via, "a valid password change (%s, class %s) did not change the stored password", via, newCls)
			} else {
				fail("invalid-change-applied|"+via, "an invalid password change (%s, class %s, %d bytes) changed the stored password", via, newCls, len(newPw))
			}
			return
		}
		if !changed {
			c.Stats.Count("change-refused:" + newCls)
			// nothing may have changed at all; the old password must still work
			if d := chDiff; len(d) != 0 {
				fail("refused-change-touched-storage", "a refused password change altered storage: %v", d)
				return
			}
			step(act("dropsid", 4, -9, ""))
			if st := step(act("login", 4, target, "ok")); st.UIDOut != U.PID {
				fail("refused-change-broke-old-password", "after a refused change the old password of %q no longer logs in", U.PID)
				return
			}
			step(act("logout", 4, -9, ""))
			continue
		}
		c.Stats.Count("change-applied:" + via)
		// (v) diff restricted to U
		for _, d := range chDiff {
			if d.PID != U.PID {
				fail("change-touched-other-account|"+d.Field, "password change of %q altered %s of %q", U.PID, d.Field, d.PID)
				return
			}
		}
		// (ii) stored form
		u := s.W.Store.Peek(U.PID)
		switch {
		case !sim.LooksBcrypt(u.Password):
			fail("stored-password-not-a-hash", "stored password of %q is not a bcrypt hash: %q", U.PID, trunc(u.Password, 20))
		case u.Password == newPw:
			fail("stored-password-is-plaintext", "stored password equals the plaintext")
		case !sim.BcryptOK(u.Password, newPw):
			fail("stored-hash-does-not-verify-new", "stored hash of %q does not verify the new password (class %s)", U.PID, newCls)
		case sim.BcryptOK(u.Password, oldPw) && !sim.PwEquiv(oldPw, newPw):
			fail("stored-hash-verifies-old", "stored hash of %q still verifies the old password", U.PID)
		}
		if bad {
			return
		}
		if via == "recover" && (u.RecoverSelector != "" || u.RecoverVerifier != "") {
			fail("recover-token-not-cleared", "recovery selector/verifier of %q still stored after use", U.PID)
			return
		}
		// (iv) every earlier remember cookie of U is dead, on every browser; rows purged
		if rows := s.W.Store.Tokens(U.PID); !rememberLoaded && via == "update" && len(rows) != 0 {
			fail("remember-rows-survive-password-change|update|remember-module-not-loaded", "%d remember-token rows of %q survive UpdatePassword on an instance that has not loaded the remember module (the storer supports token removal)", len(rows), U.PID)
			return
		} else if !rememberLoaded && len(s.W.Store.Tokens(V.PID)) == 0 {
			fail("bystander-tokens-purged", "remember tokens of bystander %q were purged by %q's password change", V.PID, U.PID)
			return
		}
		if rows := s.W.Store.Tokens(U.PID); rememberLoaded && len(rows) > innerRows {
			// a recover-and-login never asks to be remembered, so no fresh row can exist either
			fail("remember-rows-survive-password-change|"+via, "%d remember-token rows of %q survive its password change via %s", len(rows), U.PID, via)
			return
		}
		if rememberLoaded {
			if len(s.W.Store.Tokens(V.PID)) == 0 {
				fail("bystander-tokens-purged", "remember tokens of bystander %q were purged by %q's password change", V.PID, U.PID)
				return
			}
			jars[5] = innerCookie
			for _, b := range []int{0, 1, 2, 5} {
				if b < 3 && b >= k || jars[b] == "" {
					continue
				}
				if b == 5 {
					// the cookie the interleaved old-password login obtained, presented from browser 2
					jars[2], b = innerCookie, 2
					c.Stats.Count("interleaved-cookie-presented")
				}
				step(act("dropsid", b, -9, ""))
				s.Br[b].B.Jar["rm"] = jars[b]
				st := step(act("visit", b, -9, "", "route", "/protected/plain"))
				c.Stats.Count("old-cookie-presented")
				if st.UIDOut != "" || st.Rec.Probe.Ran {
					fail("old-remember-cookie-still-authenticates|"+via, "a remember cookie of %q issued before its password change (%s) still authenticates on browser %d", U.PID, via, b)
					return
				}
				if s.Br[b].B.Jar["rm"] != "" {
					fail("dead-remember-cookie-not-deleted", "the dead remember cookie was not deleted from browser %d", b)
					return
				}
			}
			// bystander's cookie (the value issued before the change) still works; it is re-inserted
			// because a reset performed on the bystander's own browser legitimately clears that
			// browser's rm cookie — the property is about the token, not about that jar
			step(act("dropsid", 3, -9, ""))
			s.Br[3].B.Jar["rm"] = jars[3]
			if st := step(act("visit", 3, -9, "", "route", "/protected/plain")); st.UIDOut != V.PID {
				fail("bystander-cookie-dead", "bystander %q's remember cookie stopped working after %q's password change", V.PID, U.PID)
				return
			}
			c.Stats.Count("bystander-cookie-ok")
		}
		// (iii) authorising token is spent
		if usedTok != "" {
			a := litTok("recover", 4, target, usedTok, "replay", "Another1!pass")
			if st := step(a); len(st.Rec.Diff()) != 0 {
				fail("recovery-token-reusable", "the recovery token that authorised the change was accepted again: %v", st.Rec.Diff())
				return
			}
			c.Stats.Count("token-replayed")
		}
		// (i) real logins
		step(act("dropsid", 4, -9, ""))
		if !sim.PwEquiv(oldPw, newPw) {
			a := act("login", 4, target, "lit")
			a.Cls = "stale"
			if st := step(a); st.UIDOut == U.PID {
				fail("old-password-still-logs-in|"+via, "the previous password of %q still logs in after the change via %s", U.PID, via)
				return
			} else if st.Act.Resolved == "stale" {
				c.Stats.Count("old-password-tried")
			}
		}
		if st := step(act("login", 4, target, "ok")); st.UIDOut != U.PID {
			fail("new-password-does-not-log-in|"+newCls, "the new password of %q (class %s, %d bytes) does not log in", U.PID, newCls, len(newPw))
			return
		}
		c.Stats.Count("new-password-ok:" + newCls)
		step(act("logout", 4, -9, ""))
		// bystander's password untouched
		if st := step(act("login", 4, other, "ok")); st.UIDOut != V.PID {
			fail("bystander-password-broken", "bystander %q can no longer log in", V.PID)
			return
		}
		step(act("logout", 4, -9, ""))
	}
	if !bad && unit%9 == 0 {
		c.Stats.Sample(map[string]interface{}{"unit": unit, "config": cfg, "steps": head(s.Hist, 30)})
	}
	_ = strings.Join
}

func init() {
	register(&Check{
		ID: "C06", Level: "exploration",
		Rule:  "per unit two rounds: 0-3 remember cookies of the target on as many browsers plus one of a bystander (when the remember module is loaded), then a password change by recovery link or programmatic update (in some units with the remember-token purge failing: a change that still reports success is held to every clause; in others with a login by the OLD password running to completion between two of the change's backend calls) with old/new pairs from {fresh, identical, 1 byte, 71/72/73 bytes, non-ASCII, NUL-containing, policy-violating}; afterwards real requests: every earlier cookie presented from a session-less browser, the bystander's cookie, the spent recovery token again, login with the old and the new password on a clean browser, login of the bystander; plus direct inspection of the stored hash (bcrypt shape, verifies new, not old unless bcrypt-equivalent) and of the diff (only the target's record/token rows). Plus, in every 40th unit, a burst on a real instance: 16 accounts change their passwords through Authboss.UpdatePassword at the same moment, 60 rounds; after each round every stored hash verifies its own account's new password and none of its neighbours'. Plus, in every 8th unit, a login with the OLD password suspended before each of its backend calls while the recovery of the same account runs to completion (no module that saves during a login loaded; in half of these units the configured bcrypt cost is above the stored hashes' cost): afterwards the stored hash verifies the new password only, the old one does not log in, the new one does. Every 8th unit runs the changes (programmatic update, recovery) on an instance with an application-supplied hasher: the stored value verifies under THAT hasher, for the new password only. Every 8th unit: a cookie is issued, copied, rotated by a session-less visit, the password changes (update / recovery), then the rotated-away and the current value are presented at +0 s, +5 s, +11 s and +71 s: neither authenticates, no token row exists. distinct_nontrivial = distinct (route, new-password class, #cookies, remember loaded, login-after-recovery, mode, applied) signatures.",
		Units: func(t string) int { return tierN(t, 320, 15000) },
		Run:   c06Unit,
		Floors: func(t string) map[string]int {
			return map[string]int{"change-applied:recover": 40, "change-applied:update": 20, "old-cookie-presented": 40, "bystander-cookie-ok": 30, "old-password-tried": 50, "token-replayed": 30, "change-refused:long73": 5, "hashes-checked-after-concurrent-changes": 1000, "old-password-login-overlapping-the-change": 20, "changes-under-a-configured-hasher:update": 20, "changes-under-a-configured-hasher:recover": 20, "pre-change-cookies-presented-after-the-change": 100}
		},
		Assumptions: []string{"programmatic UpdatePassword has no policy of its own: only bcrypt's 72-byte limit refuses a value there"},
	})
}
