package checks

import (
	"bufio"
	"bytes"
	"fmt"
	"io"
	"math/rand"
	"net"
	"net/http"
	"net/http/httptest"
	"strings"
	"time"

	"github.com/volatiletech/authboss/v3"
	"verif/sim"
)

// --- recording pieces sharing one sequence counter ---

type c11log struct {
	seq     int
	entries []c11entry
}

type c11entry struct {
	Seq  int
	Kind string // op | sessWrite | cookWrite | baseHeader | baseWrite | get
	Text string
	Evs  []authboss.ClientStateEvent
}

func (l *c11log) add(kind, text string, evs []authboss.ClientStateEvent) {
	l.seq++
	l.entries = append(l.entries, c11entry{Seq: l.seq, Kind: kind, Text: text, Evs: evs})
}

type c11state map[string]string

func (s c11state) Get(k string) (string, bool) { v, ok := s[k]; return v, ok }

type c11store struct {
	l     *c11log
	kind  string
	start c11state
	fail  bool // the first WriteState returns an error (the store is down)
	lazy  bool // keeps the event slice it is handed instead of copying it
	nilE  bool // answers a nil state (not an empty one) when it holds nothing for the client, as the interface allows
	calls int
}

func (s *c11store) ReadState(*http.Request) (authboss.ClientState, error) {
	if s.nilE && len(s.start) == 0 {
		return nil, nil
	}
	return s.start, nil
}
func (s *c11store) WriteState(w http.ResponseWriter, st authboss.ClientState, evs []authboss.ClientStateEvent) error {
	if s.lazy {
		// a write-behind store: it keeps the slice it was handed and applies it after the request — what
		// it was handed is what it must still hold then
		s.l.add(s.kind, "", evs)
	} else {
		s.l.add(s.kind, "", append([]authboss.ClientStateEvent(nil), evs...))
	}
	s.calls++
	if s.fail && s.calls == 1 {
		return errStoreDown
	}
	return nil
}

var errStoreDown = fmt.Errorf("client state store is down")

type c11base struct {
	l *c11log
	h http.Header
}

func (b *c11base) Header() http.Header  { return b.h }
func (b *c11base) WriteHeader(code int) { b.l.add("baseHeader", fmt.Sprint(code), nil) }
func (b *c11base) Write(p []byte) (int, error) {
	b.l.add("baseWrite", fmt.Sprint(len(p)), nil)
	return len(p), nil
}

// ReadFrom: net/http's own response writer implements io.ReaderFrom (sendfile fast path), so
// io.Copy(w, src) reaches it directly if anything in front of it forwards the interface.
// Hijack: this connection cannot be taken over.
func (b *c11base) Hijack() (net.Conn, *bufio.ReadWriter, error) {
	return nil, nil, fmt.Errorf("connection does not support hijacking")
}

func (b *c11base) ReadFrom(r io.Reader) (int64, error) {
	n, err := io.Copy(io.Discard, r)
	b.l.add("baseWrite", fmt.Sprintf("readfrom:%d", n), nil)
	return n, err
}

// plainReader has no WriteTo, so io.Copy looks for ReaderFrom on the destination.
type plainReader struct{ r io.Reader }

func (p plainReader) Read(b []byte) (int, error) { return p.r.Read(b) }

type wrapU struct{ http.ResponseWriter }

func (w wrapU) UnderlyingResponseWriter() http.ResponseWriter { return w.ResponseWriter }

type wrapW struct{ http.ResponseWriter }

func (w wrapW) Unwrap() http.ResponseWriter { return w.ResponseWriter }

// --- programs ---

type c11op struct {
	Op   string // putS delS delAllS putC delC getS getC header write copy wrapU wrapW
	K, V string
	N    int
}

func (o c11op) String() string {
	switch o.Op {
	case "putS", "putC":
		return fmt.Sprintf("%s(%s=%s)", o.Op, o.K, o.V)
	case "delS", "delC", "getS", "getC", "delAllS":
		return fmt.Sprintf("%s(%s)", o.Op, o.K)
	case "header", "write", "copy":
		return fmt.Sprintf("%s(%d)", o.Op, o.N)
	}
	return o.Op
}

var c11keys = []string{"uid", "halfauth", "k1", "k2", "flash", "rm"}

func c11gen(r *rand.Rand) []c11op {
	n := r.Intn(26)
	var p []c11op
	depth := 0
	for i := 0; i < n; i++ {
		k := c11keys[r.Intn(len(c11keys))]
		switch x := r.Intn(100); {
		case x < 20:
			p = append(p, c11op{Op: "putS", K: k, V: fmt.Sprintf("v%d", r.Intn(50))})
		case x < 30:
			p = append(p, c11op{Op: "delS", K: k})
		case x < 36:
			p = append(p, c11op{Op: "delAllS", K: strings.Join(c11keys[:r.Intn(3)], ",")})
		case x < 50:
			p = append(p, c11op{Op: "putC", K: k, V: fmt.Sprintf("c%d", r.Intn(50))})
		case x < 58:
			p = append(p, c11op{Op: "delC", K: k})
		case x < 68:
			p = append(p, c11op{Op: "getS", K: k})
		case x < 76:
			p = append(p, c11op{Op: "getC", K: k})
		case x < 84:
			p = append(p, c11op{Op: "header", N: []int{200, 302, 404, 500, 200, 304, 204, 100, 101, 103}[r.Intn(10)]}) // incl. informational codes and 101
		case x < 90:
			p = append(p, c11op{Op: "write", N: r.Intn(64)})
		case x < 93:
			p = append(p, c11op{Op: "copy", N: 1 + r.Intn(64)}) // body streamed with io.Copy
		default:
			if depth < 4 {
				depth++
				p = append(p, c11op{Op: pickS(r, "wrapU", "wrapW")})
			}
		}
	}
	return p
}

type c11get struct {
	store, key, val string
	ok              bool
}

// c11run executes the program behind the real LoadClientStateMiddleware.
func c11run(prog []c11op, sessStart, cookStart c11state, failS, failC, nilEmpty bool) (*c11log, []c11get, string) {
	l := &c11log{}
	ab := authboss.New()
	ab.Config.Storage.SessionState = &c11store{l: l, kind: "sessWrite", start: sessStart, fail: failS, nilE: nilEmpty}
	ab.Config.Storage.CookieState = &c11store{l: l, kind: "cookWrite", start: cookStart, fail: failC, nilE: nilEmpty}
	var gets []c11get
	nested := len(prog) > 0 && prog[0].Op == "nested"
	if len(prog) > 0 && prog[0].Op == "lazy" {
		ab.Config.Storage.SessionState.(*c11store).lazy = true
		ab.Config.Storage.CookieState.(*c11store).lazy = true
	}
	h := ab.LoadClientStateMiddleware(http.HandlerFunc(func(w http.ResponseWriter, r *http.Request) {
		orig := w // the writer the middleware handed over (wrappers below may hide its optional interfaces)
		for _, o := range prog {
			switch o.Op {
			case "rcdeadline":
				// http.ResponseController walks the Unwrap chain for what a writer does not implement itself:
				// setting a write deadline (refused by this base writer) releases no byte and delivers nothing
				l.add("op", o.String(), nil)
				http.NewResponseController(orig).SetWriteDeadline(time.Now().Add(time.Minute))
				http.NewResponseController(w).EnableFullDuplex()
			case "hijackfail":
				// an upgrade attempt on a connection that cannot be taken over (HTTP/2, a recorder): the
				// handler gets an error back and carries on with an ordinary response. Not a write.
				l.add("op", o.String(), nil)
				if hj, ok := orig.(http.Hijacker); ok {
					hj.Hijack()
				}
			case "putS":
				l.add("op", o.String(), nil)
				authboss.PutSession(w, o.K, o.V)
			case "delS":
				l.add("op", o.String(), nil)
				authboss.DelSession(w, o.K)
			case "delAllS":
				l.add("op", o.String(), nil)
				var wl []string
				if o.K != "" {
					wl = strings.Split(o.K, ",")
				}
				authboss.DelAllSession(w, wl)
			case "putC":
				l.add("op", o.String(), nil)
				authboss.PutCookie(w, o.K, o.V)
			case "delC":
				l.add("op", o.String(), nil)
				authboss.DelCookie(w, o.K)
			case "getS":
				v, ok := authboss.GetSession(r, o.K)
				gets = append(gets, c11get{"S", o.K, v, ok})
			case "getC":
				v, ok := authboss.GetCookie(r, o.K)
				gets = append(gets, c11get{"C", o.K, v, ok})
			case "header":
				l.add("op", o.String(), nil)
				func() {
					// WriteHeader panics when a store fails; a recovering handler carries on
					defer func() {
						if p := recover(); p != nil && !failS && !failC {
							panic(p)
						}
					}()
					w.WriteHeader(o.N)
				}()
			case "write":
				l.add("op", o.String(), nil)
				w.Write(make([]byte, o.N))
			case "copy":
				l.add("op", o.String(), nil)
				io.Copy(w, plainReader{bytes.NewReader(make([]byte, o.N))})
			case "wrapU":
				w = wrapU{w}
			case "wrapW":
				w = wrapW{w}
			}
		}
	}))
	pan := ""
	func() {
		defer func() {
			if p := recover(); p != nil {
				pan = fmt.Sprint(p)
			}
		}()
		if nested {
			// another instance's client-state middleware directly around this one (a site with an admin
			// area that runs its own Authboss instance): that instance's stores are none of our business
			outer := authboss.New()
			outer.Config.Storage.SessionState = &c11store{l: l, kind: "outerSessWrite", start: c11state{"uid": "outer-user"}}
			outer.Config.Storage.CookieState = &c11store{l: l, kind: "outerCookWrite", start: c11state{"rm": "outer-cookie"}}
			h = outer.LoadClientStateMiddleware(h)
		}
		h.ServeHTTP(&c11base{l: l, h: http.Header{}}, httptest.NewRequest("GET", "/x", nil))
	}()
	return l, gets, pan
}

func evText(e authboss.ClientStateEvent) string {
	switch e.Kind {
	case authboss.ClientStateEventPut:
		return fmt.Sprintf("put(%s=%s)", e.Key, e.Value)
	case authboss.ClientStateEventDel:
		return fmt.Sprintf("del(%s)", e.Key)
	}
	return fmt.Sprintf("delall(%s)", e.Key)
}

// c11check is the offline checker over the recorded log.
func c11check(prog []c11op, l *c11log, gets []c11get, sessStart, cookStart c11state, pan string, failS, failC bool) (string, string) {
	if pan != "" {
		return "panic", pan
	}
	// expected deliveries: ops per store before the first header/write op of the program
	var wantS, wantC []string
	wrote := false
	for _, o := range prog {
		if o.Op == "header" || o.Op == "write" || o.Op == "copy" {
			wrote = true
			break
		}
		switch o.Op {
		case "putS":
			wantS = append(wantS, fmt.Sprintf("put(%s=%s)", o.K, o.V))
		case "delS":
			wantS = append(wantS, fmt.Sprintf("del(%s)", o.K))
		case "delAllS":
			wantS = append(wantS, fmt.Sprintf("delall(%s)", o.K))
		case "putC":
			wantC = append(wantC, fmt.Sprintf("put(%s=%s)", o.K, o.V))
		case "delC":
			wantC = append(wantC, fmt.Sprintf("del(%s)", o.K))
		}
	}
	if !wrote {
		wantS, wantC = nil, nil // nothing is released unless the handler writes
	}
	if failS && len(wantS) > 0 {
		wantC = nil // the flush stops at the first store that fails
	}
	var gotS, gotC [][]string
	firstBase, lastState := 0, 0
	for _, e := range l.entries {
		switch e.Kind {
		case "sessWrite", "cookWrite":
			var t []string
			for _, ev := range e.Evs {
				t = append(t, evText(ev))
			}
			if e.Kind == "sessWrite" {
				gotS = append(gotS, t)
			} else {
				gotC = append(gotC, t)
			}
			lastState = e.Seq
		case "baseHeader", "baseWrite":
			if firstBase == 0 {
				firstBase = e.Seq
			}
		}
	}
	for _, e := range l.entries {
		if (e.Kind == "outerSessWrite" || e.Kind == "outerCookWrite") && len(e.Evs) > 0 {
			return "delivered-to-another-instances-store", fmt.Sprintf("%s received %d events", e.Kind, len(e.Evs))
		}
	}
	if len(gotS) > 1 {
		return "session-delivered-more-than-once", fmt.Sprintf("%d deliveries: %v", len(gotS), gotS)
	}
	if len(gotC) > 1 {
		return "cookie-delivered-more-than-once", fmt.Sprintf("%d deliveries: %v", len(gotC), gotC)
	}
	flat := func(x [][]string) []string {
		if len(x) == 0 {
			return nil
		}
		return x[0]
	}
	if g := flat(gotS); strings.Join(g, " ") != strings.Join(wantS, " ") {
		return "session-delivery-differs", fmt.Sprintf("delivered %v, want %v", g, wantS)
	}
	if g := flat(gotC); strings.Join(g, " ") != strings.Join(wantC, " ") {
		return "cookie-delivery-differs", fmt.Sprintf("delivered %v, want %v", g, wantC)
	}
	if (len(wantS) > 0) != (len(gotS) == 1) && !(len(wantS) == 0 && len(gotS) == 1 && len(gotS[0]) == 0) {
		return "session-delivery-count", fmt.Sprintf("want %d events, %d deliveries", len(wantS), len(gotS))
	}
	if (len(wantC) > 0) != (len(gotC) == 1) && !(len(wantC) == 0 && len(gotC) == 1 && len(gotC[0]) == 0) {
		return "cookie-delivery-count", fmt.Sprintf("want %d events, %d deliveries", len(wantC), len(gotC))
	}
	if (failS || failC) && firstBase != 0 {
		// the first flush failed: nothing of THAT write may have been released; later writes may pass
		firstWriteSeq := 0
		for _, e := range l.entries {
			if e.Kind == "op" && (strings.HasPrefix(e.Text, "header(") || strings.HasPrefix(e.Text, "write(") || strings.HasPrefix(e.Text, "copy(")) {
				firstWriteSeq = e.Seq
				break
			}
		}
		failed := (failS && len(wantS) > 0) || (failC && len(wantC) > 0)
		if failed {
			for _, e := range l.entries {
				if (e.Kind == "baseHeader" || e.Kind == "baseWrite") && e.Seq > firstWriteSeq {
					// is this base event caused by the first write op? it is if no other write op lies between
					between := false
					for _, o := range l.entries {
						if o.Kind == "op" && o.Seq > firstWriteSeq && o.Seq < e.Seq && (strings.HasPrefix(o.Text, "header(") || strings.HasPrefix(o.Text, "write(") || strings.HasPrefix(o.Text, "copy(")) {
							between = true
						}
					}
					if !between {
						return "bytes-released-although-state-delivery-failed", fmt.Sprintf("base writer received %s at seq %d from the write whose state flush failed", e.Kind, e.Seq)
					}
					break
				}
			}
		}
	}
	if firstBase != 0 && lastState > firstBase {
		return "state-delivered-after-first-byte", fmt.Sprintf("state write at seq %d, first header/body release at seq %d", lastState, firstBase)
	}
	for _, g := range gets {
		start := sessStart
		if g.store == "C" {
			start = cookStart
		}
		wv, wok := start[g.key]
		if g.val != wv || g.ok != wok {
			return "read-differs-from-request-start", fmt.Sprintf("get%s(%s) = (%q,%v), request-start value (%q,%v)", g.store, g.key, g.val, g.ok, wv, wok)
		}
	}
	return "", ""
}

func c11Unit(c *RunCtx, unit int) {
	r := Rng(c.Seed, "C11", unit)
	n := tierN(c.Tier, 400, 8000)
	c.Stats.Histories++
	for i := 0; i < n; i++ {
		prog := c11gen(r)
		switch r.Intn(5) {
		case 0:
			prog = append([]c11op{{Op: "nested"}}, prog...) // run behind a second instance's middleware
			c.Stats.Count("programs-nested-in-another-instance")
		case 1:
			prog = append([]c11op{{Op: "lazy"}}, prog...) // stores that keep the slice they are handed
			c.Stats.Count("programs-with-write-behind-stores")
		}
		if (i+unit)%5 == 3 {
			at := (i / 5) % (len(prog) + 1)
			if len(prog) > 0 && (prog[0].Op == "nested" || prog[0].Op == "lazy") && at == 0 {
				at = 1
			}
			prog = append(prog[:at:at], append([]c11op{{Op: "rcdeadline"}}, prog[at:]...)...)
			c.Stats.Count("programs-using-a-response-controller")
		}
		if (i+unit)%5 == 2 {
			// an attempted connection upgrade that fails, somewhere in the program (position not drawn from r)
			at := (i / 5) % (len(prog) + 1)
			if len(prog) > 0 && (prog[0].Op == "nested" || prog[0].Op == "lazy") && at == 0 {
				at = 1
			}
			prog = append(prog[:at:at], append([]c11op{{Op: "hijackfail"}}, prog[at:]...)...)
			c.Stats.Count("programs-with-a-failed-hijack")
		}
		ss, cs := c11state{}, c11state{}
		for _, k := range c11keys {
			if r.Intn(3) == 0 {
				ss[k] = "s0-" + k
			}
			if r.Intn(3) == 0 {
				cs[k] = "c0-" + k
			}
		}
		failS, failC := r.Intn(12) == 0, r.Intn(12) == 0
		if (i+unit)%4 == 1 {
			// handlers that write back what the client already holds (a re-login as the same user, a preference
			// saved unchanged): every other put of a key the request started with carries the request-start value
			n := 0
			for k := range prog {
				o := &prog[k]
				if v, ok := ss[o.K]; ok && o.Op == "putS" {
					if n++; n%2 == 1 {
						o.V = v
					}
				}
				if v, ok := cs[o.K]; ok && o.Op == "putC" {
					if n++; n%2 == 1 {
						o.V = v
					}
				}
			}
			if n > 0 {
				c.Stats.Count("programs-putting-back-the-request-start-value")
			}
		}
		if (i+unit)%7 == 3 {
			// a put of the empty string is a put (the key is present, with an empty value, on the next request), not a
			// delete: every third put of such a program carries ""
			n := 0
			for k := range prog {
				if o := &prog[k]; o.Op == "putS" || o.Op == "putC" {
					if n++; n%3 == 1 {
						o.V = ""
					}
				}
			}
			if n > 0 {
				c.Stats.Count("programs-putting-the-empty-string")
			}
		}
		// stores that answer nil for a client they hold nothing for (every third program; in half of those
		// the client arrives without a session, or without cookies, at all). Not drawn from r: the programs
		// of earlier seeds stay what they were.
		// (not combined with the nested arrangement: the instances share their context keys, so what an
		// inner store declines to answer is, by construction, what the outer instance read)
		nilEmpty := (i+unit)%3 == 0 && !(len(prog) > 0 && prog[0].Op == "nested")
		if nilEmpty {
			c.Stats.Count("programs-with-nil-answering-stores")
			switch (i / 3) % 4 {
			case 0:
				ss = c11state{}
			case 1:
				cs = c11state{}
			}
		}
		l, gets, pan := c11run(prog, ss, cs, failS, failC, nilEmpty)
		c.Stats.Evaluations++
		sig, msg := c11check(prog, l, gets, ss, cs, pan, failS, failC)
		if failS || failC {
			c.Stats.Count("programs-with-a-failing-store")
		}
		// situation signature: shape of the program
		ops, writes, wraps, before := 0, 0, 0, 0
		seenWrite := false
		for _, o := range prog {
			switch o.Op {
			case "header", "write", "copy":
				writes++
				seenWrite = true
			case "wrapU", "wrapW":
				wraps++
			case "getS", "getC":
			default:
				ops++
				if !seenWrite {
					before++
				}
			}
		}
		first := "none"
		for _, o := range prog {
			if o.Op == "header" || o.Op == "write" || o.Op == "copy" {
				first = o.Op
				break
			}
		}
		c.Stats.Sig(fmt.Sprintf("ops=%d before=%d writes=%d wraps=%d first=%s failS=%v failC=%v", min(ops, 8), min(before, 6), min(writes, 4), wraps, first, failS, failC))
		if writes > 1 {
			c.Stats.Count("programs-with-several-writes")
		}
		if wraps > 0 && before > 0 && writes > 0 {
			c.Stats.Count("programs-flushing-through-wrappers")
		}
		if ops > before && writes > 0 {
			c.Stats.Count("programs-with-ops-after-first-write")
		}
		if sig != "" {
			var ps []string
			for _, o := range prog {
				ps = append(ps, o.String())
			}
			v := vio("C11", sig, "%s; program: %s", msg, strings.Join(ps, " "))
			c.Stats.Violations = append(c.Stats.Violations, sim.VioRec{Violation: *v, Index: unit, History: ps})
			return
		}
		if i == 0 && unit%50 == 0 {
			var ps []string
			for _, o := range prog {
				ps = append(ps, o.String())
			}
			c.Stats.Sample(map[string]interface{}{"unit": unit, "program": ps, "log_entries": len(l.entries)})
		}
	}
}

func min(a, b int) int {
	if a < b {
		return a
	}
	return b
}

func init() {
	register(&Check{
		ID: "C11", Level: "exploration",
		Rule:  "random handler programs (0-25 operations over putS/delS/delAllS/putC/delC/getS/getC/WriteHeader (final codes, 100/103 informational, 101)/Write/io.Copy (the base writer implements io.ReaderFrom like net/http's) and nesting the writer in wrappers exposing UnderlyingResponseWriter() or Unwrap(), depth <= 4; one program in five runs directly inside a second Authboss instance's LoadClientStateMiddleware, whose stores must receive nothing; one in five uses write-behind stores that keep the event slice they are handed (what they hold at the end of the request is what was delivered); in 1/6 of the programs one of the stores fails its first WriteState and the handler recovers and carries on; every third program (never a nested one) runs with stores that answer a nil state, not an empty one, for a client they hold nothing for, and in half of those the client arrives without a session or without cookies) executed by a handler behind the real LoadClientStateMiddleware with two recording stores and a recording base writer sharing one sequence counter. Offline checker over the log: each store receives <= 1 delivery, exactly the operations made for it before the first write, same order/keys/values, never the other store's; every delivery precedes the first header or body byte released to the base writer; operations after the first write are never delivered; every read returns the request-start value whatever was put earlier. Every fourth program writes back, in every other put of a key the request started with, the request-start value; every fifth contains a failed connection upgrade (Hijack answered with an error), after which the program carries on. Every seventh program puts the empty string in every third put (a put, not a delete). Every fifth program calls http.ResponseController (SetWriteDeadline / EnableFullDuplex) somewhere: it walks the Unwrap chain, releases no byte and delivers nothing. distinct_nontrivial = distinct program shapes (#ops, #ops before first write, #writes, wrapper depth, kind of first write).",
		Units: func(t string) int { return tierN(t, 64, 256) },
		Run:   c11Unit,
		Floors: func(t string) map[string]int {
			return map[string]int{"programs-with-several-writes": 1000, "programs-flushing-through-wrappers": 500, "programs-with-ops-after-first-write": 1000, "programs-with-a-failing-store": 1000, "programs-with-a-failed-hijack": 1000, "programs-using-a-response-controller": 1000, "programs-with-nil-answering-stores": 1000}
		},
		Assumptions: []string{"Flush, successful hijacks and buffering wrappers are outside the alphabet the property quantifies over (a FAILED hijack attempt, after which the handler answers normally, is in it: every fifth program)", "a handler that never writes releases nothing (the library flushes on the first WriteHeader/Write only)"},
	})
}
