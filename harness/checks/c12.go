package checks

import (
	"fmt"
	"strings"

	"verif/sim"
	"verif/world"
)

// digitsOf keeps the decimal digits of a submitted code.
func digitsOf(s string) string {
	var b []byte
	for i := 0; i < len(s); i++ {
		if s[i] >= '0' && s[i] <= '9' {
			b = append(b, s[i])
		}
	}
	return string(b)
}

type c12mon struct {
	stats    *sim.Stats
	lastTOTP map[string]string // pid → last accepted TOTP code
}

func splitCSV(s string) []string {
	if s == "" {
		return nil
	}
	return strings.Split(s, ",")
}

// saveBeforeUID reports whether a Save of pid precedes the session write that puts uid=pid.
func saveBeforeUID(rec *world.Rec, pid string) (bool, bool) {
	writeAt := -1
	for i, evs := range rec.SessWrites {
		for _, e := range evs {
			if e.Kind == "put" && e.Key == "uid" && e.Value == pid {
				writeAt = rec.SessWriteAt[i]
			}
		}
	}
	if writeAt < 0 {
		return false, false
	}
	for _, c := range rec.Calls {
		if c.Op == "Save" && c.Arg == pid && c.Result == "" && c.Seq < writeAt {
			return true, true
		}
	}
	return false, true
}

func secretState(list []*sim.Secret, v string) string {
	for _, s := range list {
		if s.Val == v {
			return map[int]string{sim.Live: "live", sim.Spent: "spent", sim.Limbo: "limbo", sim.Dead: "dead"}[s.State]
		}
	}
	return "never-issued"
}

func (m *c12mon) Check(s *sim.Sim, st *sim.Step) []*sim.Violation {
	a, rec := st.Act, st.Rec
	var vs []*sim.Violation
	// at most five one-time passwords per account, after every request
	for pid, u := range rec.After.Users {
		if n := len(splitCSV(u.OTPs)); n > 5 {
			vs = append(vs, vio("C12", "more-than-five-otps", "account %q holds %d one-time passwords", pid, n))
		}
	}
	if rec.Kind != "http" || rec.Panic != "" {
		return vs
	}
	flow := flowOf(s, rec)
	if flow == "otp_login" && a.Kind == flow {
		U := a.PID
		ac := s.AcctByPID(U)
		if ac != nil {
			state := secretState(ac.OTPs, a.Secret)
			accepted := sim.SessPutAny(rec, "uid", U) || sim.SessPutAny(rec, "totp_pending", U) || sim.SessPutAny(rec, "sms_pending", U)
			if accepted && rememberJustifies(s, st, U) && !sim.SessPutAny(rec, "totp_pending", U) && !sim.SessPutAny(rec, "sms_pending", U) {
				accepted = false // the cookie, not the code, put the uid
				if rec.Location != "" && strings.HasPrefix(rec.Location, world.PathLoginOK) {
					accepted = true
				}
			}
			switch {
			case accepted && state != "live" && state != "limbo":
				owner := ""
				for _, o := range s.Accts {
					if o.PID != U && secretState(o.OTPs, a.Secret) != "never-issued" {
						owner = " (it belongs to " + o.PID + ")"
					}
				}
				vs = append(vs, vio("C12", "otp-accepted-though-"+state, "one-time password login of %q accepted a value that is %s%s (class %s)", U, state, owner, a.Resolved))
			case accepted:
				m.stats.Count("otp-accepted")
				if u := rec.After.Users[U]; u != nil && inList(splitCSV(u.OTPs), sim.Sha512B64(a.Secret)) {
					vs = append(vs, vio("C12", "accepted-otp-still-stored", "the one-time password accepted for %q is still in storage after the request", U))
				}
				if ok, put := saveBeforeUID(rec, U); put && !ok {
					vs = append(vs, vio("C12", "session-issued-before-otp-removal-saved", "the session write putting uid=%q was not preceded by a successful Save of that account in this request (calls: %v)", U, rec.Calls))
				}
			case state == "spent" || state == "dead":
				m.stats.Count("otp-replay-rejected:" + state)
			}
		}
	}
	if strings.HasSuffix(flow, "_validate") && a.Kind == flow {
		kind := strings.SplitN(flow, "_", 2)[0]
		U := subjectOf(s, rec, kind)
		ac := s.AcctByPID(U)
		accepted := U != "" && sim.SessPutAny(rec, "uid", U) && sim.SessPutAny(rec, "twofactor", kind)
		// "values that belong to another account never succeed": whoever the session names once the step has
		// completed, the value presented is one of THAT account's — not a code or recovery code of somebody else
		if x, ok := sim.SessPut(rec, "uid"); ok && x != "" && sim.SessPutAny(rec, "twofactor", kind) && rec.FaultsFired == 0 && secondFactorProven(s, st, x, flow) == "" {
			for _, o := range s.Accts {
				if o.PID != x && rec.Before.Users[o.PID] != nil && secondFactorProven(s, st, o.PID, flow) != "" {
					vs = append(vs, vio("C12", "value-of-another-account-completed-the-login|"+kind, "the %s step completed a login of %q with a value that is %q's (%s), not its own", kind, x, o.PID, secondFactorProven(s, st, o.PID, flow)))
					break
				}
			}
		}
		if ac != nil && a.Secret2 != "" {
			state := secretState(ac.Recov, a.Secret2)
			switch {
			case accepted && state != "live" && state != "limbo":
				vs = append(vs, vio("C12", "recovery-code-accepted-though-"+state, "2FA validation of %q accepted a recovery code that is %s (class %s)", U, state, a.Resolved))
			case accepted:
				m.stats.Count("recovery-accepted")
				before, after := splitCSV(rec.Before.Users[U].RecoveryCodes), splitCSV(rec.After.Users[U].RecoveryCodes)
				if len(after) != len(before)-1 {
					vs = append(vs, vio("C12", "recovery-list-not-shrunk-by-one", "recovery list of %q went from %d to %d entries on an accepted code", U, len(before), len(after)))
				}
				for _, h := range after {
					if sim.BcryptOK(h, a.Secret2) {
						vs = append(vs, vio("C12", "accepted-recovery-code-still-stored", "the recovery code accepted for %q still verifies against a stored hash", U))
					}
				}
				if ok, put := saveBeforeUID(rec, U); put && !ok {
					vs = append(vs, vio("C12", "session-issued-before-recovery-removal-saved", "the session write putting uid=%q was not preceded by a successful Save of that account", U))
				}
			case state == "spent" || state == "dead":
				m.stats.Count("recovery-replay-rejected")
			}
		}
		if accepted && a.Secret2 == "" && kind == "sms" {
			m.stats.Count("sms-code-accepted")
			if u := rec.Before.Users[U]; u != nil && !s.SMSSentTo(u.SMSPhone, a.Secret) {
				vs = append(vs, vio("C12", "sms-code-of-another-account-accepted", "the SMS step of %q (number %q) accepted code %q, which was delivered to another phone", U, u.SMSPhone, a.Secret))
			}
			if rec.SessOut["sms_secret"] != "" {
				vs = append(vs, vio("C12", "sms-code-survives-its-login", "the SMS code that completed the login of %q is still in the session afterwards", U))
			}
		}
		if kind == "totp" && a.Secret2 == "" && U != "" {
			// the code is its digits: "123456", "123456 " and "123 456" are spellings of one code
			code := digitsOf(a.Secret)
			if accepted {
				if s.Cfg.OneTimeTOTP && m.lastTOTP[U] == code && code != "" {
					sp := "verbatim"
					if a.Secret != code {
						sp = "respelled:" + a.Cls
					}
					vs = append(vs, vio("C12", "totp-code-accepted-twice-in-a-row|"+sp, "with replay protection enabled the same TOTP code was accepted twice in a row for %q (second submission %q)", U, a.Secret))
				}
				m.lastTOTP[U] = code
				m.stats.Count("totp-accepted")
			} else if s.Cfg.OneTimeTOTP && m.lastTOTP[U] == a.Secret && code != "" {
				m.stats.Count("totp-replay-rejected")
			} else if s.Cfg.OneTimeTOTP && m.lastTOTP[U] == code && code != "" && strings.TrimSpace(a.Secret) == code {
				// the same code with surrounding whitespace, refused: still "in a row"
				m.stats.Count("totp-respelled-replay-rejected")
			} else if a.Secret != m.lastTOTP[U] {
				// any attempt with another input (a wrong code, an empty one) ends the "in a row"
				m.lastTOTP[U] = "\x00other"
			}
		}
	}
	// the code that confirms an enrolment is used up by it
	if a.Kind == "totp_confirm" && rec.Kind == "http" && rec.FaultsFired == 0 {
		if pid := rec.SessIn["uid"]; pid != "" {
			b, af := rec.Before.Users[pid], rec.After.Users[pid]
			if b != nil && af != nil && af.TOTPSecretKey != "" && af.TOTPSecretKey != b.TOTPSecretKey {
				m.lastTOTP[pid] = digitsOf(a.Secret)
				m.stats.Count("totp-enrolment-code-recorded")
			}
		}
	}
	// remove with a recovery code: same one-time rules
	if (a.Kind == "totp_remove" || a.Kind == "sms_remove") && a.Secret2 != "" {
		U := rec.SessIn["uid"]
		if ac := s.AcctByPID(U); ac != nil {
			state := secretState(ac.Recov, a.Secret2)
			removed := false
			for _, d := range rec.Diff() {
				if d.PID == U && (d.Field == "TOTPSecretKey" || d.Field == "SMSPhone") && d.New == "" {
					removed = true
				}
			}
			if removed && state != "live" && state != "limbo" {
				vs = append(vs, vio("C12", "recovery-code-accepted-though-"+state+"|remove", "2FA removal for %q accepted a recovery code that is %s", U, state))
			}
		}
	}
	return vs
}

func (m *c12mon) Post(s *sim.Sim, st *sim.Step) []*sim.Violation { return nil }

func (m *c12mon) Sig(s *sim.Sim, st *sim.Step) string {
	a, rec := st.Act, st.Rec
	switch a.Kind {
	case "otp_login", "otp_add", "otp_clear", "totp_validate", "sms_validate", "totp_remove", "sms_remove", "regen":
	default:
		return ""
	}
	pid := a.PID
	if pid == "" {
		pid = subjectOf(s, rec, strings.SplitN(a.Kind, "_", 2)[0])
	}
	n := 0
	if u := rec.Before.Users[pid]; u != nil {
		n = len(splitCSV(u.OTPs))
	}
	out := "uid-same"
	if st.UIDIn != st.UIDOut {
		out = "uid-changed"
	}
	return fmt.Sprintf("%s/%s/otps=%d/%s/%s/%s/onetime=%v", a.Kind, a.Resolved, n, sessClass(rec.SessIn), out, modeOf(s.Cfg), s.Cfg.OneTimeTOTP)
}

var c12Templates = []sim.Template{
	{Name: "otp-generate-use-replay", F: func(s *sim.Sim) []*sim.Action {
		if !s.Cfg.Has("otp") || !s.Cfg.Has("auth") {
			return nil
		}
		v := findAcct(s, func(u *world.User) bool { return u.TOTPSecretKey == "" && u.SMSPhone == "" && u.Confirmed })
		if v < 0 {
			return nil
		}
		sc := []*sim.Action{act("login", 0, v, "ok")}
		n := 1 + s.R.Intn(6)
		for i := 0; i < n; i++ {
			sc = append(sc, act("otp_add", 0, -9, ""))
		}
		sc = append(sc, act("otp_login", 1, v, "ok"), act("otp_login", 1, v, "spent"), act("otp_login", 2, v, "spent"), act("otp_login", 2, v, "ok"))
		if s.R.Intn(2) == 0 {
			sc = append(sc, act("otp_clear", 0, -9, ""), act("otp_login", 1, v, "dead"), act("otp_add", 0, -9, ""), act("otp_login", 1, v, "dead"), act("otp_login", 1, v, "ok"))
		}
		return sc
	}},
	{Name: "recovery-use-replay-regen", F: func(s *sim.Sim) []*sim.Action {
		if len(s.Cfg.TwoFA) == 0 || !s.Cfg.Has("auth") || s.Cfg.Has("confirm") {
			return nil
		}
		kind := s.Cfg.TwoFA[s.R.Intn(len(s.Cfg.TwoFA))]
		v := findAcct(s, func(u *world.User) bool {
			return (kind == "totp" && u.TOTPSecretKey != "") || (kind == "sms" && u.SMSPhone != "" && u.TOTPSecretKey == "")
		})
		if v < 0 {
			return nil
		}
		k := kind + "_validate"
		sc := []*sim.Action{act("login", 0, v, "ok"), act(k, 0, -9, "recovery"), act("logout", 0, -9, ""),
			act("login", 1, v, "ok"), act(k, 1, -9, "recovery_spent"), act(k, 1, -9, "recovery")}
		if s.R.Intn(2) == 0 {
			sc = append(sc, act("regen", 1, -9, ""), act("logout", 1, -9, ""), act("login", 2, v, "ok"), act(k, 2, -9, "recovery_spent"), act(k, 2, -9, "recovery"))
		}
		return sc
	}},
	{Name: "re-enrol-then-old-recovery-code", F: func(s *sim.Sim) []*sim.Action {
		// the factor is removed and enrolled again (or the other kind is added): the confirm page shows a
		// fresh batch of recovery codes, which replaces the old one — codes of the old batch are dead
		if len(s.Cfg.TwoFA) == 0 || s.Cfg.TwoFAEmail || !s.Cfg.Has("auth") || s.Cfg.Has("confirm") {
			return nil
		}
		k := s.Cfg.TwoFA[s.R.Intn(len(s.Cfg.TwoFA))]
		v := findAcct(s, func(u *world.User) bool {
			return (k == "totp" && u.TOTPSecretKey != "" && u.SMSPhone == "") || (k == "sms" && u.SMSPhone != "" && u.TOTPSecretKey == "")
		})
		if v < 0 {
			return nil
		}
		k2 := k
		sc := []*sim.Action{act("login", 0, v, "ok"), act(k+"_validate", 0, -9, "ok"), act("advance", 0, -9, "", "d", "11s")}
		if len(s.Cfg.TwoFA) == 2 && s.R.Intn(2) == 0 {
			k2 = map[string]string{"totp": "sms", "sms": "totp"}[k] // add the other kind next to it
		} else {
			sc = append(sc, act(k+"_remove", 0, -9, "recovery"))
		}
		if k2 == "totp" {
			sc = append(sc, act("totp_setup", 0, -9, ""), act("totp_confirm", 0, -9, "ok"))
		} else {
			sc = append(sc, act("sms_setup", 0, -9, "own"), act("sms_confirm", 0, -9, "ok"))
		}
		sc = append(sc, act("logout", 0, -9, ""), act("advance", 0, -9, "", "d", "11s"), act("login", 1, v, "ok"))
		for _, kk := range []string{k, k2} {
			sc = append(sc, act(kk+"_validate", 1, -9, "recovery_spent"))
		}
		sc = append(sc, act(k2+"_validate", 1, -9, "recovery"), act(k+"_validate", 1, -9, "recovery"))
		return sc
	}},
	{Name: "sms-code-replay", F: func(s *sim.Sim) []*sim.Action {
		if !s.Cfg.Has2FA("sms") || !s.Cfg.Has("auth") {
			return nil
		}
		v := findAcct(s, func(u *world.User) bool { return u.SMSPhone != "" && u.TOTPSecretKey == "" })
		if v < 0 {
			return nil
		}
		return []*sim.Action{act("login", 0, v, "ok"), act("sms_validate", 0, -9, "ok"), act("logout", 0, -9, ""), act("advance", 0, -9, "", "d", "11s"),
			act("login", 0, v, "ok"), act("sms_validate", 0, -9, "ownsms", "own", fmt.Sprint(v)), act("sms_validate", 0, -9, "ok"), act("sms_validate", 0, -9, "ok")}
	}},
	{Name: "login-answered-by-application-listener-then-replay", F: func(s *sim.Sim) []*sim.Action {
		// the application's own After(EventAuth) listener answers the login request itself (or fails in
		// it): whatever one-time secret completed that login is spent all the same
		if len(s.Cfg.TwoFA) == 0 || !s.Cfg.Has("auth") {
			return nil
		}
		k := s.Cfg.TwoFA[s.R.Intn(len(s.Cfg.TwoFA))]
		v := findAcct(s, func(u *world.User) bool {
			return u.Confirmed && ((k == "totp" && u.TOTPSecretKey != "" && u.SMSPhone == "") || (k == "sms" && u.SMSPhone != "" && u.TOTPSecretKey == ""))
		})
		if v < 0 {
			return nil
		}
		kv := k + "_validate"
		first := pickS(s.R, "ok", "ok", "recovery")
		again := map[string]string{"ok": "ok", "recovery": "recovery_spent"}[first]
		if k == "totp" && first == "ok" {
			first, again = "cur", "cur" // exactly the same code both times
		}
		return []*sim.Action{act("login", 0, v, "ok"), act("hooknext", 0, -9, "", "mode", pickS(s.R, "handled", "handled", "error")), act(kv, 0, -9, first),
			act("login", 1, v, "ok"), act(kv, 1, -9, again), act(kv, 1, -9, again), act(kv, 1, -9, "ok")}
	}},
	{Name: "one-time-secret-login-while-the-save-fails", F: func(s *sim.Sim) []*sim.Action {
		// the storer's Save fails in the request that presents a recovery code (or an OTP): whatever the
		// error handler answers, a session may only come out of it if the secret is gone from storage
		if !s.Cfg.Has("auth") {
			return nil
		}
		if len(s.Cfg.TwoFA) > 0 && s.R.Intn(3) != 0 {
			k := s.Cfg.TwoFA[s.R.Intn(len(s.Cfg.TwoFA))]
			v := findAcct(s, func(u *world.User) bool {
				return u.Confirmed && ((k == "totp" && u.TOTPSecretKey != "" && u.SMSPhone == "") || (k == "sms" && u.SMSPhone != "" && u.TOTPSecretKey == ""))
			})
			if v < 0 {
				return nil
			}
			kv := k + "_validate"
			return []*sim.Action{act("login", 0, v, "ok"), act("faultnext", 0, -9, "", "op", "Save"), act(kv, 0, -9, "recovery"), act("visit", 0, -9, "", "route", "/protected/bare"),
				act("login", 1, v, "ok"), act(kv, 1, -9, "recovery_spent"), act(kv, 1, -9, "recovery")}
		}
		if !s.Cfg.Has("otp") {
			return nil
		}
		v := findAcct(s, func(u *world.User) bool { return u.TOTPSecretKey == "" && u.SMSPhone == "" && u.Confirmed })
		if v < 0 {
			return nil
		}
		return []*sim.Action{act("login", 0, v, "ok"), act("otp_add", 0, -9, ""), act("faultnext", 1, -9, "", "op", "Save"), act("otp_login", 1, v, "ok"),
			act("visit", 1, -9, "", "route", "/protected/bare"), act("otp_login", 2, v, "spent"), act("otp_login", 2, v, "ok")}
	}},
	{Name: "enrolment-code-replayed-at-the-next-login", F: func(s *sim.Sim) []*sim.Action {
		// the code that confirmed the TOTP enrolment is a used code: the login that follows within the same
		// period cannot be completed with it again (replay-protecting user type)
		if !s.Cfg.Has2FA("totp") || s.Cfg.TwoFAEmail || !s.Cfg.Has("auth") {
			return nil
		}
		v := findAcct(s, func(u *world.User) bool { return u.Confirmed && u.TOTPSecretKey == "" && u.SMSPhone == "" })
		if v < 0 {
			return nil
		}
		return []*sim.Action{act("login", 0, v, "ok"), act("totp_setup", 0, -9, ""), act("totp_confirm", 0, -9, "ok"), act("logout", 0, -9, ""),
			act("login", 1, v, "ok"), act("totp_validate", 1, -9, "cur"), act("totp_validate", 1, -9, "cur")}
	}},
	{Name: "totp-same-code-in-another-spelling", F: func(s *sim.Sim) []*sim.Action {
		// the code that just completed a login, presented again with surrounding whitespace or a separator
		if !s.Cfg.Has2FA("totp") || !s.Cfg.Has("auth") {
			return nil
		}
		v := findAcct(s, func(u *world.User) bool { return u.TOTPSecretKey != "" && u.Confirmed })
		if v < 0 {
			return nil
		}
		return []*sim.Action{act("login", 0, v, "ok"), act("totp_validate", 0, -9, "cur"), act("login", 1, v, "ok"), act("totp_validate", 1, -9, pickS(s.R, "cur_ws", "cur_ws", "cur_sep")),
			act("totp_validate", 1, -9, pickS(s.R, "cur_ws", "cur_sep", "cur")), act("totp_validate", 1, -9, "cur")}
	}},
	{Name: "totp-same-code-twice", F: func(s *sim.Sim) []*sim.Action {
		if !s.Cfg.Has2FA("totp") || !s.Cfg.Has("auth") {
			return nil
		}
		v := findAcct(s, func(u *world.User) bool { return u.TOTPSecretKey != "" })
		if v < 0 {
			return nil
		}
		return []*sim.Action{act("login", 0, v, "ok"), act("totp_validate", 0, -9, "ok"), act("login", 1, v, "ok"), act("totp_validate", 1, -9, "ok"), act("totp_validate", 1, -9, "wrong"), act("totp_validate", 1, -9, "ok")}
	}},
}

var c12Profile = &sim.Profile{
	W: map[string]int{
		"login": 20, "otp_login": 20, "otp_add": 14, "otp_clear": 3, "totp_validate": 12, "sms_validate": 12, "regen": 2, "logout": 5,
		"totp_remove": 2, "sms_remove": 2, "advance": 3, "dropsid": 2, "visit": 2, "admin_unlock": 2, "faultnext": 3,
	},
	Cls: map[string]map[string]int{
		"login":         {"ok": 90, "wrong": 10},
		"otp_login":     {"ok": 35, "spent": 20, "dead": 10, "other": 12, "hash": 8, "password": 5, "empty": 5, "wrong": 5},
		"totp_validate": {"ok": 35, "wrong": 10, "recovery": 20, "recovery_spent": 15, "recovery_other": 10, "recovery_hash": 5, "empty": 5},
		"sms_validate":  {"ok": 35, "wrong": 10, "recovery": 20, "recovery_spent": 15, "recovery_other": 10, "recovery_hash": 5, "empty": 5},
	},
	MinLen: 25, MaxLen: 55, Templates: append(append([]sim.Template(nil), c12Templates...), c02Templates[0], c02Templates[1], c02Templates[2]), TplProb: 0.6, NoiseProb: 0.1,
}

// c12LimitInterleaved: "at most five one-time passwords exist per account" when two browsers of the
// same account ask for a new one at the same time: account with 3 / 4 / 5 stored, request A is suspended
// before its i-th backend call (every i), request B runs to completion there, A carries on. Whatever the
// two are told, storage never holds more than five afterwards.
func c12LimitInterleaved(c *RunCtx, unit int) {
	cfg := world.Cfg{Modules: []string{"auth", "otp", "logout"}, Mount: []string{"/auth", ""}[(unit/25)%2], JSON: (unit/50)%2 == 1}
	w, err := world.New(cfg, "c12-limit")
	if err != nil {
		c.Stats.Inconclusive = append(c.Stats.Inconclusive, "world: "+err.Error())
		return
	}
	pid, pw := "limit@site.test", "Lim1t!passw"
	w.Store.Put(&world.User{PID: pid, Email: pid, Password: sim.Hash4(pw), Confirmed: true})
	bA, bB := world.NewBrowser(1), world.NewBrowser(2)
	for _, b := range []*world.Browser{bA, bB} {
		if rec := w.Do(b, world.Req{Method: "POST", Path: w.P("/login"), Form: map[string]string{"email": pid, "password": pw}}); rec.SessOut["uid"] != pid {
			c.Stats.Inconclusive = append(c.Stats.Inconclusive, "c12 limit: login failed: "+rec.HandlerErr)
			return
		}
	}
	count := func() int {
		u := w.Store.Peek(pid)
		if u == nil || u.OTPs == "" {
			return 0
		}
		return len(strings.Split(u.OTPs, ","))
	}
	add := world.Req{Method: "POST", Path: w.P("/otp/add")}
	for have := 0; have <= 5; have++ {
		if have >= 3 {
			base := w.SaveState()
			for at := 0; at < 8; at++ {
				w.LoadState(base)
				a, b := bA.Clone(), bB.Clone()
				w.YieldedAt = nil
				w.Yield = map[int]func(){at: func() { w.Do(b, add) }}
				w.Do(a, add)
				w.Yield = nil
				c.Stats.Evaluations++
				if len(w.YieldedAt) == 0 {
					break // the request makes fewer backend calls than that
				}
				c.Stats.Count("otp-adds-interleaved")
				c.Stats.Sig(fmt.Sprintf("otp-limit/had=%d/second-request-before-%s#%d/now=%d", have, w.YieldedAt[0], at, count()))
				if n := count(); n > 5 {
					v := vio("C12", "more-than-five-otps|interleaved-adds", "account holding %d one-time passwords, two browsers ask for another at the same time (the second request ran before backend call #%d, %s, of the first): storage now holds %d", have, at, w.YieldedAt[0], n)
					c.Stats.Violations = append(c.Stats.Violations, sim.VioRec{Violation: *v, Index: unit, Cfg: cfg.String(), History: []string{"A: POST /otp/add (suspended before backend call " + fmt.Sprint(at) + ")", "B: POST /otp/add", "A resumes"}})
					w.LoadState(base)
					return
				}
			}
			w.LoadState(base)
		}
		if have < 5 {
			w.Do(bA, add)
			if count() != have+1 {
				c.Stats.Inconclusive = append(c.Stats.Inconclusive, fmt.Sprintf("c12 limit: sequential add #%d did not add", have+1))
				return
			}
		}
	}
}

func init() {
	register(&Check{
		ID: "C12", Level: "exploration",
		Rule:  "histories of generate/use/replay/clear/regenerate across 3-4 accounts and 3 browsers against a copying storer (a forgotten Save is visible), directed templates (OTP add x1-6/use/replay from same and other browser/clear/regenerate; recovery use/replay/regenerate; remove-and-enrol-again / add-the-other-kind followed by a code of the replaced batch; SMS code replay; same TOTP code twice; a login whose After(EventAuth) is answered by — or fails in — the application's own listener, followed by a replay) plus random walks whose candidate strings include spent, cleared, other accounts', never-issued and empty values and stored hashes. Ledger: every OTP shown by /otp/add, every recovery code seeded or shown, every SMS in the outbox, every accepted TOTP code. Oracle: an accepted value must be live in the ledger; after acceptance its stored form is gone (recovery list shrunk by exactly one, no remaining hash verifies it; OTP hash absent; sms_secret deleted by the same session write) and the Save precedes the session write that puts uid; <=5 OTPs per account after every request; with the replay-protecting user type the same TOTP code twice in a row is rejected. Plus, in every 25th unit, the limit of five under interleaving: an account holding 3/4/5 one-time passwords, request A (POST /otp/add) is suspended before each of its backend calls in turn while request B (the same, from another browser of the account) runs to completion; storage never holds more than five. Whoever the session names once a second step completed, the value presented is one of THAT account's (a TOTP code of its secret, an SMS code delivered to its number, one of its recovery codes) — not one attributable to another account. distinct_nontrivial = distinct (flow, value class, #OTPs held, session state, outcome, mode, replay protection) signatures.",
		Units: func(t string) int { return tierN(t, 500, 8000) },
		Run: func(c *RunCtx, unit int) {
			if unit%25 == 0 {
				c12LimitInterleaved(c, unit)
			}
			r := Rng(c.Seed, "C12", unit)
			cfg := randomCfg(r, "auth", "otp", "logout")
			var mods []string
			for _, m := range cfg.Modules {
				if m != "confirm" {
					mods = append(mods, m)
				}
			}
			cfg.Modules = mods
			if len(cfg.TwoFA) == 0 && r.Intn(3) != 0 {
				cfg.TwoFA = [][]string{{"totp"}, {"sms"}, {"totp", "sms"}}[r.Intn(3)]
			}
			cfg.TwoFAEmail = false
			cfg.LockAfter = 5
			s, err := sim.New(cfg, r, sim.SeedOpt{Accounts: 4, Browsers: 3, TwoFAProb: 0.5})
			if err != nil {
				c.Stats.Inconclusive = append(c.Stats.Inconclusive, "world: "+err.Error())
				return
			}
			sim.RunHistory(s, c12Profile, []sim.Monitor{&c12mon{stats: c.Stats, lastTOTP: map[string]string{}}}, c.Stats, unit)
		},
		Floors: func(t string) map[string]int {
			return map[string]int{"otp-accepted": 80, "otp-replay-rejected:spent": 30, "otp-replay-rejected:dead": 5, "recovery-accepted": 40, "recovery-replay-rejected": 30, "sms-code-accepted": 30, "totp-accepted": 30, "totp-replay-rejected": 3, "otp-adds-interleaved": 50}
		},
		Assumptions: []string{"storage behaves like a database: every Load returns a copy, only Save persists", "an OTP presented in a request that was blocked (lock) or parked is treated as consumed-or-not at the library's discretion (state 'limbo', no demand)"},
	})
}
