package checks

import (
	"fmt"
	"strings"
	"time"

	"verif/sim"
	"verif/world"
)

type c03mon struct {
	stats  *sim.Stats
	manual map[string]time.Time // pid → instant until which a manual Lock() holds (cleared by Unlock())
}

var guardedRoutes = map[string][2]bool{ // route → (lock middleware, confirm middleware)
	"plain": {true, true}, "full": {true, true}, "2fa": {true, true}, "lockonly": {true, false}, "confirmonly": {false, true},
	"notok-lock": {true, true}, "notok-confirm": {true, true}, "root": {true, true}, "mounted": {true, true},
}

// guardedTarget reports whether a request path is one of the application routes behind the guards.
func guardedTarget(s *sim.Sim, target string) bool {
	p := strings.SplitN(target, "?", 2)[0]
	return strings.HasPrefix(p, "/protected/") || p == world.PathLockNotOK || p == world.PathConfirmNotOK || p == "/" || p == s.Cfg.Mount+"/app/page"
}

func (m c03mon) Check(s *sim.Sim, st *sim.Step) []*sim.Violation {
	a, rec := st.Act, st.Rec
	var vs []*sim.Violation
	now := rec.Now
	switch a.Kind {
	case "admin_lock":
		if rec.AdminErr == "" && rec.Panic == "" {
			m.manual[a.PID] = now.Add(s.W.AB.Config.Modules.LockDuration)
		}
	case "admin_unlock":
		delete(m.manual, a.PID)
	case "admin_startconfirm":
		// a re-started confirmation puts the account back to "not confirmed" (and mails a new token) — whatever
		// it was before: from now on it is an unconfirmed account to every login path and to the middleware
		if rec.AdminErr == "" && rec.Panic == "" && s.Cfg.Has("confirm") {
			if u := rec.After.Users[a.PID]; u != nil {
				if u.Confirmed || u.ConfirmSelector == "" {
					vs = append(vs, vio("C03", "restarted-confirmation-left-account-confirmed", "confirm.StartConfirmation for %q returned without error, yet the account is stored as confirmed=%v with selector %q: it will log in and pass the middleware without ever presenting the new token", a.PID, u.Confirmed, trunc(u.ConfirmSelector, 8)))
				} else {
					m.stats.Count("confirmation-restarted")
				}
			}
		}
	}
	if flow := flowOf(s, rec); flow != "" && rec.DecoyCalls > 0 {
		// the handler of this instance's login route worked on the second instance of the process (its
		// storage, its event listeners): this instance's lock and confirm modules never got to veto
		return []*sim.Violation{vio("C03", "login-flow-handled-by-another-instance|"+flow, "the %s request made %d backend calls on the second Authboss instance of the process: the before-auth listeners of THIS instance (lock, confirm) were not the ones consulted", flow, rec.DecoyCalls)}
	}
	// (i) interactive login flows
	if flow := flowOf(s, rec); flow != "" && flow != "register" {
		U := st.UIDOut
		if U != "" && U != st.UIDIn && !rememberJustifies(s, st, U) {
			u := rec.Before.Users[U]
			if u == nil {
				u = rec.After.Users[U] // account created by this very request (first OAuth2 login)
			}
			if u != nil {
				locked := s.Cfg.Has("lock") && u.Locked.After(now)
				if until, ok := m.manual[U]; ok && s.Cfg.Has("lock") && until.After(now) && !locked {
					// storage says unlocked, but an administrator locked the account and nobody unlocked it
					vs = append(vs, vio("C03", "manually-locked-account-logged-in|"+flow, "%s ended with a logged-in session for %q although Lock() put it out until %s and Unlock() was never called (storage says locked until %s, now %s)", flow, U, ts(until), ts(u.Locked), ts(now)))
				}
				unconf := s.Cfg.Has("confirm") && !u.Confirmed
				if locked {
					vs = append(vs, vio("C03", "locked-account-logged-in|"+flow, "%s ended with a logged-in session for %q although it was locked until %s (now %s)", flow, U, u.Locked.Format("15:04:05.000000000"), now.Format("15:04:05.000000000")))
				}
				if unconf {
					vs = append(vs, vio("C03", "unconfirmed-account-logged-in|"+flow, "%s ended with a logged-in session for %q although it is not e-mail-confirmed", flow, U))
				}
				if !locked && !unconf {
					m.stats.Count("login-ok:" + flow)
				}
			}
		}
		// (i') the second-factor step of a session that already names the account: it too completes a login
		// (it takes the session to full, second-factor authentication and answers with the login redirect)
		if U := st.UIDOut; U != "" && U == st.UIDIn && strings.HasSuffix(flow, "_validate") && rec.SessOut["twofactor"] != "" && (rec.SessIn["twofactor"] == "" || rec.SessIn["halfauth"] != "" && rec.SessOut["halfauth"] == "") {
			if u := rec.Before.Users[U]; u != nil {
				if s.Cfg.Has("lock") && u.Locked.After(now) {
					vs = append(vs, vio("C03", "locked-account-completed-second-factor-step|"+flow, "%s took the session of %q to second-factor authentication although the account is locked until %s (now %s)", flow, U, ts(u.Locked), ts(now)))
				} else if s.Cfg.Has("confirm") && !u.Confirmed {
					vs = append(vs, vio("C03", "unconfirmed-account-completed-second-factor-step|"+flow, "%s took the session of unconfirmed %q to second-factor authentication", flow, U))
				} else {
					m.stats.Count("second-factor-step-in-existing-session")
				}
			}
		}
		// count blocked attempts (evidence that the guards were exercised)
		if pid := a.PID; a.Kind == flow && st.UIDOut == st.UIDIn {
			if strings.HasSuffix(flow, "_validate") {
				pid = subjectOf(s, rec, strings.SplitN(flow, "_", 2)[0])
			}
			if u := rec.Before.Users[pid]; u != nil {
				if s.Cfg.Has("lock") && u.Locked.After(now) && rec.Location == world.PathLockNotOK {
					m.stats.Count("blocked-locked:" + flow)
				}
				if s.Cfg.Has("confirm") && !u.Confirmed && rec.Location == world.PathConfirmNotOK {
					m.stats.Count("blocked-unconfirmed:" + flow)
				}
			}
		}
	}
	// (ii) the lock / confirm middlewares
	if rec.Kind == "http" && rec.Probe.Ran {
		if g, ok := guardedRoutes[rec.Probe.Route]; ok {
			pid := rec.Probe.UID
			if u := rec.Before.Users[pid]; u != nil {
				if g[0] && s.Cfg.Has("lock") && u.Locked.After(now) {
					vs = append(vs, vio("C03", "lock-middleware-passed-locked-user|"+rec.Probe.Route, "lock.Middleware passed a request of %q (locked until %s) to the handler on %s", pid, u.Locked.Format("15:04:05"), rec.Target))
				}
				if g[1] && s.Cfg.Has("confirm") && !u.Confirmed {
					vs = append(vs, vio("C03", "confirm-middleware-passed-unconfirmed-user|"+rec.Probe.Route, "confirm.Middleware passed a request of unconfirmed %q to the handler on %s", pid, rec.Target))
				}
				m.stats.Count("middleware-passed")
			}
		}
	}
	if rec.Kind == "http" && !rec.Probe.Ran && guardedTarget(s, rec.Target) {
		if u := rec.Before.Users[rec.SessIn["uid"]]; u != nil {
			if s.Cfg.Has("lock") && u.Locked.After(now) && rec.Location == world.PathLockNotOK {
				m.stats.Count("middleware-stopped-locked")
			}
			if s.Cfg.Has("confirm") && !u.Confirmed && rec.Location == world.PathConfirmNotOK {
				m.stats.Count("middleware-stopped-unconfirmed")
			}
		}
	}
	return vs
}

func (m c03mon) Post(s *sim.Sim, st *sim.Step) []*sim.Violation { return nil }

func (m c03mon) Sig(s *sim.Sim, st *sim.Step) string {
	rec := st.Rec
	flow := flowOf(s, rec)
	pid := st.Act.PID
	if strings.HasSuffix(flow, "_validate") {
		pid = subjectOf(s, rec, strings.SplitN(flow, "_", 2)[0])
	}
	if flow == "" {
		if rec.Kind != "http" || !guardedTarget(s, rec.Target) {
			return ""
		}
		flow = "visit:" + rec.Method + ":" + strings.SplitN(strings.TrimPrefix(strings.TrimPrefix(rec.Target, s.Cfg.Mount), "/protected/"), "?", 2)[0]
		pid = rec.SessIn["uid"]
	}
	ac := acctClass(s, rec.Before, pid)
	if !strings.Contains(ac, "locked") && !strings.Contains(ac, "unconf") {
		return ""
	}
	out := "uid-same"
	if st.UIDIn != st.UIDOut {
		out = "uid-changed"
	}
	if rec.Probe.Ran {
		out += "+ran"
	}
	order := loadOrder(s.Cfg)
	return fmt.Sprintf("%s/%s/%s/%s/%s/%s/%s", flow, st.Act.Resolved, ac, sessClass(rec.SessIn), modeOf(s.Cfg), order, out)
}

// loadOrder renders the relative load order of the modules whose handler order matters.
func loadOrder(c world.Cfg) string {
	var o []string
	for _, m := range c.Modules {
		switch m {
		case "lock", "confirm", "remember":
			o = append(o, m[:1])
		}
	}
	return strings.Join(o, "") + ":" + strings.Join(c.TwoFA, "")
}

var c03Templates = []sim.Template{
	{Name: "lock-between-password-and-2fa-by-wrong-codes", F: func(s *sim.Sim) []*sim.Action {
		if !s.Cfg.Has("lock") || !s.Cfg.Has("auth") || len(s.Cfg.TwoFA) == 0 {
			return nil
		}
		v := findAcct(s, func(u *world.User) bool { return (u.TOTPSecretKey != "" || u.SMSPhone != "") && u.Confirmed })
		if v < 0 {
			return nil
		}
		u := s.W.Store.Peek(s.Accts[v].PID)
		kind := "totp"
		if u.TOTPSecretKey == "" || !s.Cfg.Has2FA("totp") {
			kind = "sms"
		}
		if !s.Cfg.Has2FA(kind) {
			return nil
		}
		b := s.R.Intn(len(s.Br))
		sc := []*sim.Action{act("login", b, v, "ok")}
		for i := 0; i < s.Cfg.LockAfter+1; i++ {
			sc = append(sc, act(kind+"_validate", b, -9, "wrong"))
		}
		sc = append(sc, act(kind+"_validate", b, -9, "ok"), act("visit", b, -9, "", "route", "/protected/lockonly"))
		return sc
	}},
	{Name: "manual-lock-between-steps", F: func(s *sim.Sim) []*sim.Action {
		if !s.Cfg.Has("lock") || !s.Cfg.Has("auth") || len(s.Cfg.TwoFA) == 0 {
			return nil
		}
		v := findAcct(s, func(u *world.User) bool { return (u.TOTPSecretKey != "" || u.SMSPhone != "") && u.Confirmed })
		if v < 0 {
			return nil
		}
		u := s.W.Store.Peek(s.Accts[v].PID)
		kind := "totp"
		if u.TOTPSecretKey == "" || !s.Cfg.Has2FA("totp") {
			kind = "sms"
		}
		if !s.Cfg.Has2FA(kind) {
			return nil
		}
		b := s.R.Intn(len(s.Br))
		last := act(kind+"_validate", b, -9, pickS(s.R, "ok", "recovery"))
		return []*sim.Action{act("login", b, v, "ok"), act("admin_lock", b, v, ""), last, act("visit", b, -9, "", "route", "/protected/plain")}
	}},
	{Name: "locked-then-every-path", F: func(s *sim.Sim) []*sim.Action {
		if !s.Cfg.Has("lock") {
			return nil
		}
		v := s.R.Intn(len(s.Accts))
		b := s.R.Intn(len(s.Br))
		sc := []*sim.Action{act("admin_lock", b, v, ""), act("login", b, v, "ok"), act("otp_login", b, v, "ok"), act("recover_start", b, v, "")}
		e := act("recover_end", b, v, "current")
		e.Cls2 = "fresh"
		sc = append(sc, e, act("advance", b, -9, "", "d", (s.W.AB.Config.Modules.LockDuration-1).String()), act("login", b, v, "ok"),
			act("advance", b, -9, "", "d", "2ns"), act("login", b, v, "ok"))
		return sc
	}},
	{Name: "logged-in-then-locked-visits", F: func(s *sim.Sim) []*sim.Action {
		if !s.Cfg.Has("auth") || !(s.Cfg.Has("lock") || s.Cfg.Has("confirm")) {
			return nil
		}
		v := findAcct(s, func(u *world.User) bool { return u.TOTPSecretKey == "" && u.SMSPhone == "" && u.Confirmed })
		if v < 0 {
			return nil
		}
		b := s.R.Intn(len(s.Br))
		sc := []*sim.Action{act("login", b, v, "ok"), act("visit", b, -9, "", "route", "/protected/plain")}
		everywhere := func() []*sim.Action {
			var out []*sim.Action
			for _, rt := range []string{world.PathLockNotOK, world.PathConfirmNotOK + "?from=x", "/", s.Cfg.Mount + "/app/page"} {
				out = append(out, act("visit", b, -9, "", "route", rt, "method", pickS(s.R, "GET", "GET", "POST", "HEAD")))
			}
			// a cross-origin script's preflight and other shapes a browser sends of its own accord: the guard is about
			// who the session user is, not about the dressing of the request
			out = append(out, act("visit", b, -9, "", "route", "/protected/lockonly", "method", "OPTIONS", "hdr", "Access-Control-Request-Method: POST|Origin: https://other.example"),
				act("visit", b, -9, "", "route", "/protected/confirmonly", "method", "OPTIONS", "hdr", "Access-Control-Request-Method: GET|Origin: https://other.example"),
				act("visit", b, -9, "", "route", "/protected/plain", "method", "OPTIONS", "hdr", "Access-Control-Request-Method: DELETE|Access-Control-Request-Headers: x-csrf|Origin: null"))
			return out
		}
		if s.Cfg.Has("lock") {
			sc = append(sc, act("admin_lock", b, v, ""), act("visit", b, -9, "", "route", "/protected/lockonly"), act("visit", b, -9, "", "route", "/protected/plain"))
			sc = append(sc, everywhere()...)
			sc = append(sc, act("admin_unlock", b, v, ""), act("visit", b, -9, "", "route", "/protected/plain"))
		}
		if s.Cfg.Has("confirm") {
			sc = append(sc, act("admin_startconfirm", b, v, ""), act("visit", b, -9, "", "route", "/protected/confirmonly"), act("visit", b, -9, "", "route", "/protected/full"))
			sc = append(sc, everywhere()...)
			sc = append(sc, act("confirm", b, v, "current"), act("visit", b, -9, "", "route", "/protected/confirmonly"))
		}
		return sc
	}},
	{Name: "oauth2-unconfirmed-or-locked", F: func(s *sim.Sim) []*sim.Action {
		if !s.Cfg.Has("oauth2") || !(s.Cfg.Has("lock") || s.Cfg.Has("confirm")) {
			return nil
		}
		b := s.R.Intn(len(s.Br))
		p := s.Cfg.Providers[s.R.Intn(len(s.Cfg.Providers))]
		cb := func() *sim.Action {
			a := act("oauth_cb", b, 0, "own", "provider", p)
			a.Cls2 = "validcode"
			return a
		}
		sc := []*sim.Action{act("oauth_start", b, -9, "", "provider", p), cb(), act("logout", b, -9, "")}
		// the account now exists as ledger account len(s.Accts) (appended when created)
		n := len(s.Accts)
		if s.Cfg.Has("confirm") && s.R.Intn(2) == 0 {
			sc = append(sc, act("admin_startconfirm", b, n, ""))
		} else if s.Cfg.Has("lock") {
			sc = append(sc, act("admin_lock", b, n, ""))
		}
		sc = append(sc, act("oauth_start", b, -9, "", "provider", p), cb(), act("visit", b, -9, "", "route", "/protected/plain"))
		return sc
	}},
	{Name: "locked-login-while-the-lock-modules-write-fails", F: func(s *sim.Sim) []*sim.Action {
		if !s.Cfg.Has("lock") || !s.Cfg.Has("auth") {
			return nil
		}
		v := findAcct(s, func(u *world.User) bool { return u.TOTPSecretKey == "" && u.SMSPhone == "" && u.Confirmed })
		if v < 0 {
			return nil
		}
		b := s.R.Intn(len(s.Br))
		return []*sim.Action{act("admin_lock", b, v, ""), act("faultnext", b, -9, "", "op", "Save"), act("login", b, v, "ok"), act("visit", b, -9, "", "route", "/protected/lockonly"),
			act("faultnext", b, -9, "", "op", pickS(s.R, "Save", "Load")), act("login", b, v, "ok"), act("visit", b, -9, "", "route", "/protected/plain")}
	}},
	{Name: "second-factor-step-of-a-session-that-is-already-logged-in", F: func(s *sim.Sim) []*sim.Action {
		// a session that names the account but carries no second-factor mark (the factor was switched on for
		// the account after the login, by the operator); the account is then locked / un-confirmed; the
		// browser proves the factor at the validate page
		if !s.Cfg.Has("auth") || len(s.Cfg.TwoFA) == 0 || !(s.Cfg.Has("lock") || s.Cfg.Has("confirm")) {
			return nil
		}
		kind := s.Cfg.TwoFA[s.R.Intn(len(s.Cfg.TwoFA))]
		v := findAcct(s, func(u *world.User) bool { return u.Confirmed && u.TOTPSecretKey == "" && u.SMSPhone == "" })
		if v < 0 {
			return nil
		}
		b := s.R.Intn(len(s.Br))
		k := kind + "_validate"
		sc := []*sim.Action{act("login", b, v, "ok"), act("admin_enable2fa", b, v, "", "kind", kind)}
		if s.Cfg.Has("lock") && (!s.Cfg.Has("confirm") || s.R.Intn(2) == 0) {
			sc = append(sc, act("admin_lock", b, v, ""))
		} else {
			sc = append(sc, act("admin_startconfirm", b, v, ""))
		}
		if kind == "sms" {
			sc = append(sc, act(k, b, -9, "empty")) // asks for a code
		}
		return append(sc, act(k, b, -9, "ok"), act("visit", b, -9, "", "route", "/protected/2fa"), act(k, b, -9, "recovery"), act("visit", b, -9, "", "route", "/protected/2fa"))
	}},
	{Name: "unconfirmed-every-path", F: func(s *sim.Sim) []*sim.Action {
		if !s.Cfg.Has("confirm") {
			return nil
		}
		v := findAcct(s, func(u *world.User) bool { return !u.Confirmed })
		b := s.R.Intn(len(s.Br))
		var sc []*sim.Action
		if v < 0 {
			v = s.R.Intn(len(s.Accts))
			sc = append(sc, act("admin_startconfirm", b, v, ""))
		}
		e := act("recover_end", b, v, "current")
		e.Cls2 = "fresh"
		sc = append(sc, act("login", b, v, "ok"), act("otp_login", b, v, "ok"), act("recover_start", b, v, ""), e, act("confirm", b, v, "current"), act("login", b, v, "ok"))
		return sc
	}},
}

var c03Profile = &sim.Profile{
	W: map[string]int{
		"login": 24, "otp_login": 6, "otp_add": 4, "recover_start": 3, "recover_end": 5, "totp_validate": 8, "sms_validate": 8,
		"oauth_start": 4, "oauth_cb": 6, "advance": 6, "logout": 3, "visit": 12, "admin_lock": 5, "admin_unlock": 3,
		"admin_startconfirm": 4, "confirm": 4, "register": 3, "dropsid": 2, "steal": 2, "raw": 1, "faultnext": 3,
	},
	Cls: map[string]map[string]int{
		"login":    {"ok": 55, "wrong": 35, "near": 5, "empty": 5},
		"oauth_cb": {"own": 85, "garbage": 5, "spent": 5, "otherbrowser": 5},
	},
	MinLen: 20, MaxLen: 45, Templates: c03Templates, TplProb: 0.6, NoiseProb: 0.1,
}

func init() {
	register(&Check{
		ID: "C03", Level: "exploration",
		Rule:  "histories over random load orders of lock/confirm/remember relative to the login modules and of totp/sms: correct and incorrect attempts on every login path, lock by failures / manually / expiry by clock advance placed at LockDuration-1ns and +1ns, lock acquired between the password and the 2FA step, re-started confirmation, unconfirmed accounts created by register/seeding/OAuth2. Oracle: storage is read BEFORE each request (Locked>now on the frozen virtual clock, Confirmed); if an interactive flow ends with uid=U for such an account, or the probe behind lock/confirm middleware runs for such a session user, it is a violation. In worlds with a second instance in the process, a login-type request that causes backend calls on that instance is a violation (the flow was handled by the other instance's modules; this instance's lock/confirm were not consulted). (i') The second-factor step of a session that already names the account (the factor was switched on for the account after it logged in) must not take a locked / unconfirmed account to second-factor authentication. After a successful confirm.StartConfirmation the account is stored unconfirmed with a fresh selector (a re-started confirmation counts from then on). Guarded routes are also requested with OPTIONS dressed as a CORS preflight (Access-Control-Request-Method, Origin). distinct_nontrivial = distinct (flow, class, locked/unconfirmed account state, session state, mode, load order, outcome) signatures for locked or unconfirmed accounts only.",
		Units: func(t string) int { return tierN(t, 800, 30000) },
		Run: func(c *RunCtx, unit int) {
			r := Rng(c.Seed, "C03", unit)
			cfg := randomCfg(r, "auth")
			if !cfg.Has("lock") && !cfg.Has("confirm") {
				cfg.Modules = shuffled(r, append(cfg.Modules, pickS(r, "lock", "confirm")))
			}
			s, err := sim.New(cfg, r, sim.SeedOpt{Accounts: 4, Browsers: 3, TwoFAProb: 0.4, Unconfirmed: 0.3})
			if err != nil {
				c.Stats.Inconclusive = append(c.Stats.Inconclusive, "world: "+err.Error())
				return
			}
			sim.RunHistory(s, c03Profile, []sim.Monitor{c03mon{stats: c.Stats, manual: map[string]time.Time{}}}, c.Stats, unit)
		},
		Floors: func(t string) map[string]int {
			return map[string]int{"blocked-locked:login": 10, "blocked-unconfirmed:login": 10, "middleware-stopped-locked": 5, "middleware-stopped-unconfirmed": 5, "middleware-passed": 20, "login-ok:login": 20}
		},
		Assumptions: []string{"'locked' means stored Locked instant strictly after the frozen virtual now, exactly the comparison the statement makes; the boundary instant itself is only approached to 1ns"},
	})
}
