package checks

import (
	"encoding/json"
	"fmt"
	"sort"
	"strings"
	"time"

	"verif/sim"
	"verif/world"
)

// observable is everything the client can see of one response, canonicalised.
func observable(w *world.World, b *world.Browser, rec *world.Rec, pid string) string {
	canon := func(s string) string {
		s = strings.ReplaceAll(s, pid, "<pid>")
		if sid := b.Jar[world.SidCookie]; sid != "" {
			s = strings.ReplaceAll(s, sid, "<sid>")
		}
		return s
	}
	var hs []string
	for k, vs := range rec.Header {
		for _, v := range vs {
			hs = append(hs, k+": "+canon(v))
		}
	}
	sort.Strings(hs)
	jar := map[string]string{}
	for k, v := range b.Jar {
		if k != world.SidCookie {
			jar[k] = v
		}
	}
	hasSid := b.Jar[world.SidCookie] != ""
	sj, _ := json.Marshal(w.Sess.Of(b))
	jj, _ := json.Marshal(jar)
	return fmt.Sprintf("status=%d\nheaders=%s\nbody=%s\nsession=%s\njar=%s sid=%v panic=%v", rec.Status, strings.Join(hs, " | "), canon(rec.RespBody), canon(string(sj)), string(jj), hasSid, rec.Panic != "")
}

func firstDiff(a, b string) string {
	la, lb := strings.Split(a, "\n"), strings.Split(b, "\n")
	for i := 0; i < len(la) && i < len(lb); i++ {
		if la[i] != lb[i] {
			return fmt.Sprintf("A: %s  ≠  B: %s", trunc(la[i], 300), trunc(lb[i], 300))
		}
	}
	return "length differs"
}

func c16Unit(c *RunCtx, unit int) {
	r := Rng(c.Seed, "C16", unit)
	cfg := randomCfg(r, "auth", "lock", "recover")
	cfg.UseExpire = unit%4 == 2 // the idle-expiry hooks and middleware next to auth + lock (its Setup before or after Init)
	cfg.ExpireSetupFirst = unit%8 == 2
	if cfg.UseExpire {
		cfg.ExpireAfter = time.Hour
	}
	cfg.FoldPIDs = unit%3 == 1 // a storer that looks identifiers up case-insensitively; identifiers are then typed in another spelling
	respell := func(pid string) string {
		if !cfg.FoldPIDs {
			return pid
		}
		return strings.Map(func(r rune) rune {
			switch {
			case r >= 'a' && r <= 'z':
				return r - 32
			case r >= 'A' && r <= 'Z':
				return r + 32
			}
			return r
		}, pid)
	}
	s, err := sim.New(cfg, r, sim.SeedOpt{Accounts: 4, Browsers: 2, TwoFAProb: 0.3, Unconfirmed: 0.2})
	if err != nil {
		c.Stats.Inconclusive = append(c.Stats.Inconclusive, "world: "+err.Error())
		return
	}
	w := s.W
	c.Stats.Histories++
	mods := w.AB.Config.Modules
	N, W, D := mods.LockAfter, mods.LockWindow, mods.LockDuration
	_ = D
	// drive the accounts into varied states with a short random prelude
	for i := 0; i < 12; i++ {
		var a *sim.Action
		switch r.Intn(6) {
		case 0, 1:
			a = act("login", r.Intn(2), r.Intn(4), "wrong")
		case 2:
			a = act("login", r.Intn(2), r.Intn(4), "ok")
		case 3:
			a = act("admin_lock", 0, r.Intn(4), "")
		case 4:
			g := s.Gaps()
			a = act("advance", 0, -9, "", "d", g[r.Intn(len(g))].String())
		default:
			a = act("admin_unlock", 0, r.Intn(4), "")
		}
		st := s.Exec(a)
		s.Learn(st)
	}
	// seed some one-time passwords directly (hashes only) so the OTP analogue has material
	otps := map[string]string{}
	for i, ac := range s.Accts {
		if u := w.Store.Peek(ac.PID); u != nil {
			code := fmt.Sprintf("%08x-%08x-%08x-%08x", i, i+1, i+2, r.Uint32())
			u.OTPs = sim.Sha512B64(code)
			w.Store.Put(u)
			otps[ac.PID] = code
		}
	}
	mailFault := ""
	again := time.Duration(0)
	opFault := "" // a storage operation that fails once during BOTH requests of a pair (the store is read-only, failing over)
	pairN := 0
	pair := func(kind, what string, build func(variant int) (world.Req, string)) {
		base := w.SaveState()
		jar := world.NewBrowser(90)
		// the browser may carry a pre-existing anonymous session (flash from an earlier visit)
		if r.Intn(2) == 0 {
			w.Do(jar, world.Req{Method: "GET", Path: "/app/set?k=app_theme&v=dark"})
			base = w.SaveState()
		}
		// ... or state left by an earlier flow of the visitor's own: the password step of his own
		// second-factor account, never finished (every third pair; not drawn from r)
		if pairN++; pairN%3 == 2 {
			_, p0 := build(0)
			_, p1 := build(1)
			for _, own := range s.Accts {
				u := w.Store.Peek(own.PID)
				if strings.Contains(p0, own.PID) || strings.Contains(p1, own.PID) {
					continue // his OWN account, not the one the pair is about
				}
				if u == nil || own.Pw == "" || (u.TOTPSecretKey == "" && u.SMSPhone == "") || u.Locked.After(w.Now()) || (cfg.Has("confirm") && !u.Confirmed) {
					continue
				}
				w.Do(jar, world.Req{Method: "POST", Path: w.P("/login"), Form: map[string]string{"email": own.PID, "password": own.Pw}})
				if m := w.Sess.Of(jar); m["totp_pending"] != "" || m["sms_pending"] != "" {
					c.Stats.Count("pairs-in-a-session-with-a-parked-second-factor-login")
					what += "/parked-2fa-login"
				}
				base = w.SaveState()
				break
			}
		}
		var obs [2]string
		var recs [2]*world.Rec
		for v := 0; v < 2; v++ {
			w.LoadState(base)
			b := jar.Clone()
			rq, pid := build(v)
			if again > 0 {
				// the same client asked the same thing a moment ago: the comparison is between the answers to
				// the REPEATED request
				w.Do(b, rq)
				w.Advance(again)
			}
			if mailFault != "" {
				w.FaultOps = map[string]error{mailFault: errGeneric}
			}
			if opFault != "" {
				w.FaultOps = map[string]error{opFault: errGeneric}
			}
			rec := w.Do(b, rq)
			obs[v] = observable(w, b, rec, pid)
			recs[v] = rec
		}
		w.LoadState(base)
		c.Stats.Evaluations++
		c.Stats.Count("pairs:" + kind)
		out := fmt.Sprint(recs[0].Status)
		if recs[0].Location != "" {
			out += "→" + recs[0].Location
		}
		c.Stats.Sig(fmt.Sprintf("%s/%s/%s/%s/%s", kind, what, modeOf(cfg), loadOrder(cfg), out))
		if obs[0] != obs[1] {
			v := vio("C16", kind+"|"+what, "%s: the two requests are distinguishable by the client (%s): %s", kind, what, firstDiff(obs[0], obs[1]))
			c.Stats.Violations = append(c.Stats.Violations, sim.VioRec{Violation: *v, Index: unit, Cfg: cfg.String(), History: []string{"A: " + recs[0].Method + " " + recs[0].Target + " " + trunc(recs[0].Body, 160), "B: " + recs[1].Method + " " + recs[1].Target + " " + trunc(recs[1].Body, 160)},
				Detail: "A:\n" + obs[0] + "\nB:\n" + obs[1]})
		}
	}
	extra := func(f map[string]string) {
		if r.Intn(3) == 0 {
			f["rm"] = "true"
		}
		if r.Intn(3) == 0 {
			f["redir"] = "/after/login"
		}
	}
	now := w.Now()
	for _, ac := range s.Accts {
		u := w.Store.Peek(ac.PID)
		if u == nil || ac.Pw == "" {
			continue
		}
		locked := u.Locked.After(now)
		state := fmt.Sprintf("count=%d/%s/2fa=%v/conf=%v", u.AttemptCount, map[bool]string{true: "locked", false: "open"}[locked], has2FA(cfg, u), u.Confirmed)
		// (a) locked + confirmed: correct vs incorrect password (and OTP)
		if locked && u.Confirmed {
			f := map[string]string{}
			extra(f)
			pair("locked-correct-vs-incorrect-password", state, func(v int) (world.Req, string) {
				form := map[string]string{"email": ac.PID, "password": ac.Pw}
				if v == 1 {
					form["password"] = "Wr0ng!" + ac.Pw
				}
				for k, x := range f {
					form[k] = x
				}
				return world.Req{Method: "POST", Path: w.P("/login"), Form: form}, ac.PID
			})
			// the same pair while the user store refuses writes: whatever the answer to a locked account is then, it
			// is the same answer for a right and a wrong password
			opFault = "Save"
			pair("locked-correct-vs-incorrect-password", state+"/store-refuses-writes", func(v int) (world.Req, string) {
				form := map[string]string{"email": ac.PID, "password": ac.Pw}
				if v == 1 {
					form["password"] = "Wr0ng!" + ac.Pw
				}
				return world.Req{Method: "POST", Path: w.P("/login"), Form: form}, ac.PID
			})
			opFault = ""
			if cfg.Has("otp") {
				pair("locked-correct-vs-incorrect-otp", state, func(v int) (world.Req, string) {
					form := map[string]string{"email": ac.PID, "password": otps[ac.PID]}
					if v == 1 {
						form["password"] = "00000000-00000000-00000000-00000000"
					}
					for k, x := range f {
						form[k] = x
					}
					return world.Req{Method: "POST", Path: w.P("/otp/login"), Form: form}, ac.PID
				})
			}
		}
		// (c) unknown account vs known account + wrong password, when the attempt does not lock it
		count := u.AttemptCount + 1
		if u.LastAttempt.IsZero() || now.Sub(u.LastAttempt) > W {
			count = 1
		}
		if !locked && count < N {
			f := map[string]string{}
			extra(f)
			pair("unknown-account-vs-wrong-password", state, func(v int) (world.Req, string) {
				pid := ac.PID
				if v == 0 {
					pid = "nobody-" + ac.PID
				}
				pid = respell(pid)
				form := map[string]string{"email": pid, "password": "Wr0ng!pass1"}
				for k, x := range f {
					form[k] = x
				}
				return world.Req{Method: "POST", Path: w.P("/login"), Form: form}, pid
			})
			if cfg.Has("otp") {
				fo := map[string]string{}
				extra(fo)
				inQuery := r.Intn(2) == 0 && fo["redir"] != ""
				pair("unknown-account-vs-wrong-otp", state, func(v int) (world.Req, string) {
					pid := ac.PID
					if v == 0 {
						pid = "nobody-" + ac.PID
					}
					form := map[string]string{"email": pid, "password": "00000000-00000000-00000000-00000000"}
					path := w.P("/otp/login")
					for k, x := range fo {
						if k == "redir" && inQuery {
							path += "?redir=" + x
							continue
						}
						form[k] = x
					}
					return world.Req{Method: "POST", Path: path, Form: form}, pid
				})
			}
		}
		// (b) recovery start: existing vs similar non-existing account — also while the mail system is
		// down (mail delivery is not client-observable; its failure must not be either)
		mailFault = []string{"", "", "mail", "mailrender"}[r.Intn(4)]
		if mailFault != "" {
			c.Stats.Count("pairs:recover-with-mail-fault")
		}
		defer func() { mailFault = "" }()
		pair("recover-existing-vs-unknown", state+"/mailfault="+mailFault, func(v int) (world.Req, string) {
			pid := ac.PID
			if v == 1 {
				pid = "x" + ac.PID
			}
			return world.Req{Method: "POST", Path: w.P("/recover"), Form: map[string]string{"email": pid}}, pid
		})
		// ... and asked twice in a row (the account then holds a pending recovery token; the unknown one cannot)
		mailFault = ""
		again = []time.Duration{time.Second, 5 * time.Second, 2 * time.Minute}[unit%3]
		pair("recover-existing-vs-unknown", state+"/asked-again-after="+again.String(), func(v int) (world.Req, string) {
			pid := ac.PID
			if v == 1 {
				pid = "x" + ac.PID
			}
			return world.Req{Method: "POST", Path: w.P("/recover"), Form: map[string]string{"email": pid}}, pid
		})
		again = 0
	}
	// (c') accounts whose stored password is not a usable hash — created through OAuth2 (no password at
	// all; their identifiers are guessable), invited / imported with an empty or foreign-format value:
	// a password login for them fails exactly like one for nobody
	if N >= 2 {
		odd := []struct{ pid, pw, what string }{
			{"oauth2;;alpha;;uid-" + fmt.Sprint(unit), "", "oauth2-account-without-password"},
			{fmt.Sprintf("invited%d@site.test", unit), "", "empty-stored-password"},
			{fmt.Sprintf("imported%d@site.test", unit), "$argon2id$v=19$m=65536,t=3,p=4$c29tZXNhbHQ$RdescudvJCsgt3ub+b+dWRWJTmaaJObG", "foreign-hash-format"},
			{fmt.Sprintf("legacy%d@site.test", unit), "$2a$10$tooshort", "truncated-bcrypt-hash"},
		}
		for _, o := range odd {
			o := o
			u := &world.User{PID: o.pid, Email: o.pid, Password: o.pw, Confirmed: true}
			if strings.HasPrefix(o.pid, "oauth2;;") {
				u.OAuth2Provider, u.OAuth2UID = "alpha", strings.TrimPrefix(o.pid, "oauth2;;alpha;;")
			}
			w.Store.Put(u)
			f := map[string]string{}
			extra(f)
			pair("unknown-account-vs-wrong-password", "unusable-stored-hash/"+o.what, func(v int) (world.Req, string) {
				pid := o.pid
				if v == 0 {
					pid = "nobody-" + o.pid
				}
				form := map[string]string{"email": pid, "password": "Wr0ng!pass1"}
				for k, x := range f {
					form[k] = x
				}
				return world.Req{Method: "POST", Path: w.P("/login"), Form: form}, pid
			})
			c.Stats.Count("pairs:unusable-stored-hash")
		}
	}
	if unit%25 == 0 {
		c.Stats.Sample(map[string]interface{}{"unit": unit, "config": cfg, "example_pair": "POST /login {pid, correct pw} vs {pid, wrong pw} for a locked account; outcomes compared byte for byte after canonicalising sid and the submitted pid"})
	}
	_ = time.Second
}

func init() {
	register(&Check{
		ID: "C16", Level: "exploration",
		Rule:  "two-run monitor: from one snapshot of the whole world (storage, sessions, jar, outboxes, virtual clock) request A is run, the outcome recorded, the snapshot restored, request B run; status, every header, body, the browser's resulting session map and cookie jar are compared byte for byte (only the sid value and the submitted identifier canonicalised). Pairs: (a) correct vs incorrect password / OTP for a locked, confirmed account; (b) recovery start for an existing vs a similar non-existing identifier, asked once and asked twice in a row (1 s / 5 s / 2 min apart: the existing account then holds a pending token); (c) login / OTP login for an unknown identifier vs a known one with a wrong secret, restricted — decided from storage and the statement's lock automaton BEFORE running — to accounts that are not locked and that this attempt does not lock; the known side also includes accounts whose stored password is no usable hash (OAuth2-created, empty, foreign format, truncated). Account states come from a random prelude of failures, successes, manual lock/unlock and clock advances over random module subsets, load orders of lock/confirm, LockAfter 1-4, with rm/redir present or not, form and JSON. Every third pair runs in a session that holds the visitor's own parked second-factor login (state left by an earlier flow). A third of the units use a storer that matches identifiers case-insensitively and type every identifier in the opposite case. A quarter of the units load the expire hooks and middleware next to auth + lock (expire.Setup before ab.Init in half of those). The locked pair is also run while the user store refuses writes on both requests. distinct_nontrivial = distinct (pair kind, account state, mode, load order, outcome) signatures.",
		Units: func(t string) int { return tierN(t, 500, 40000) },
		Run:   c16Unit,
		Floors: func(t string) map[string]int {
			return map[string]int{"pairs:locked-correct-vs-incorrect-password": 100, "pairs:unknown-account-vs-wrong-password": 200, "pairs:recover-existing-vs-unknown": 500, "pairs:locked-correct-vs-incorrect-otp": 20}
		},
		Assumptions: []string{"timing side channels (bcrypt only runs for existing users) are outside the property as stated and outside what this harness measures", "mail delivery is not client-observable"},
	})
}
