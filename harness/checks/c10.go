package checks

import (
	"fmt"
	"strings"

	"verif/sim"
	"verif/world"
)

type c10mon struct {
	stats *sim.Stats
	after map[int]bool // browser → the previous request was a completed logout
}

func isLogoutReq(s *sim.Sim, rec *world.Rec) (toLogout, rightMethod bool) {
	if rec.Kind != "http" || !s.Cfg.Has("logout") {
		return false, false
	}
	p := strings.SplitN(rec.Target, "?", 2)[0]
	if p != s.W.P("/logout") {
		return false, false
	}
	return true, rec.Method == s.W.AB.Config.Modules.LogoutMethod
}

func stateLabels(m map[string]string) []string {
	var l []string
	if m["uid"] != "" {
		if m["halfauth"] != "" {
			l = append(l, "halfauth")
		} else {
			l = append(l, "logged-in")
		}
		if m["twofactor"] != "" {
			l = append(l, "2fa-marked")
		}
	}
	if m["totp_pending"] != "" || m["sms_pending"] != "" {
		l = append(l, "mid-2fa-login")
	}
	if m["totp_secret"] != "" || m["sms_number"] != "" {
		l = append(l, "mid-2fa-setup")
	}
	if m["twofactor_auth_token"] != "" || m["twofactor_authed"] != "" {
		l = append(l, "mid-email-verify")
	}
	if m["oauth2_state"] != "" {
		l = append(l, "mid-oauth2")
	}
	if m["sms_secret"] != "" {
		l = append(l, "sms-code-outstanding")
	}
	if len(l) == 0 {
		l = append(l, "anonymous")
	}
	return l
}

func (m *c10mon) Check(s *sim.Sim, st *sim.Step) []*sim.Violation {
	rec := st.Rec
	b := st.Act.B
	var vs []*sim.Violation
	if rec.Kind == "http" && m.after[b] {
		delete(m.after, b)
		if st.Act.Kind == "visit" && rec.CookiesIn["rm"] == "" {
			m.stats.Count("follow-up-after-logout")
			if rec.Probe.Ran && (rec.Probe.UID != "" || rec.Probe.UserPID != "") {
				vs = append(vs, vio("C10", "request-after-logout-authenticated", "the request following a logout was served as %q", rec.Probe.UID))
			}
			if rec.Probe.Ran && rec.Probe.Route != "public" && rec.Probe.Route != "cached" {
				vs = append(vs, vio("C10", "protected-route-after-logout", "the request following a logout reached protected route %s", rec.Probe.Route))
			}
		}
	} else if st.Act.Kind == "steal" || st.Act.Kind == "dropsid" {
		delete(m.after, b)
	}
	to, right := isLogoutReq(s, rec)
	if !to || rec.Panic != "" {
		return vs
	}
	if rec.FaultsFired > 0 {
		// a backend call failed during this request. Logging out needs nothing from the user table: with
		// the user table unreachable (every failed call is a user lookup) a logout that answers without an
		// error status is a logout response like any other — being logged in while the database is down
		// is one more reachable state. Any other failure (renderer, …), and any 5xx answer, is C18's
		// question: the clauses below describe a logout that ran to completion.
		onlyLookups := true
		for _, c := range rec.Calls {
			if strings.HasPrefix(c.Result, "fault:") && c.Op != "Load" {
				onlyLookups = false
			}
		}
		if strings.HasSuffix(rec.AppHook, ":error") {
			onlyLookups = false // the application's own logout listener failed: not a user lookup
		}
		if !onlyLookups || !right || rec.Status >= 500 {
			m.stats.Count("logout-during-backend-fault")
			return vs
		}
		m.stats.Count("logout-while-user-table-unreachable")
	}
	wl := s.Cfg.Whitelist
	if right {
		if !flushed(rec) && len(rec.SessIn) > 0 {
			return append(vs, vio("C10", "logout-wrote-nothing", "logout from state %v wrote no client state at all (handler error: %q)", stateLabels(rec.SessIn), rec.HandlerErr))
		}
		for _, l := range stateLabels(rec.SessIn) {
			m.stats.Count("logout-from:" + l)
		}
		expired := false
		if s.Cfg.UseExpire {
			_, expired = rec.SessIn["last_action"]
		}
		_ = expired
		for k, v := range rec.SessOut {
			// the user identity, the half-auth mark and the activity stamp go in any case — an application
			// that (mis)lists one of them among its whitelisted keys does not thereby stay logged in
			identity := k == "uid" || k == "halfauth" || k == "last_action"
			if (inList(wl, k) && !identity) || k == "flash_success" || k == "flash_error" {
				continue
			}
			vs = append(vs, vio("C10", "value-survives-logout|"+k, "after logout the session still holds %s=%q (state before: %v)", k, trunc(v, 24), stateLabels(rec.SessIn)))
		}
		for _, k := range wl {
			// what the key should hold afterwards: its value at request start, unless the site's own
			// middleware changed it in this very request (?_lang= puts app_lang, ?_drop= deletes a key)
			if k == "uid" || k == "halfauth" || k == "last_action" {
				continue // see above
			}
			want, had := rec.SessIn[k]
			changed := false
			if v := st.Act.Opt["_lang"]; v != "" && k == "app_lang" {
				want, had, changed = v, true, true
			}
			if st.Act.Opt["_drop"] == k {
				want, had, changed = "", false, true
			}
			got, has := rec.SessOut[k]
			switch {
			case had && (!has || got != want):
				sig := "whitelisted-value-lost-on-logout"
				if changed {
					sig += "|changed-in-the-same-request"
				}
				vs = append(vs, vio("C10", sig, "whitelisted key %q should be %q after the logout, found %q (present=%v)", k, want, got, has))
			case !had && has && changed:
				vs = append(vs, vio("C10", "whitelisted-value-deleted-in-the-same-request-survives", "whitelisted key %q was deleted by the site's middleware in the logout request and is still %q", k, got))
			case had:
				m.stats.Count("whitelisted-kept")
				if changed {
					m.stats.Count("whitelisted-changed-in-logout-request")
				}
			}
		}
		if rec.CookiesOut["rm"] != "" {
			vs = append(vs, vio("C10", "remember-cookie-survives-logout", "the remember-me cookie is still in the browser after logout"))
		}
		if rec.CookiesIn["rm"] != "" {
			m.stats.Count("logout-with-rm-cookie")
		}
		m.after[b] = true
		return vs
	}
	// any other method must not log out
	m.stats.Count("wrong-method:" + rec.Method)
	if s.Cfg.UseExpire {
		return vs // an expiry wipe in the middleware is not logout's doing
	}
	for _, k := range []string{"uid", "halfauth", "twofactor", "totp_pending", "sms_pending"} {
		if rec.SessIn[k] != rec.SessOut[k] {
			if k == "uid" && rec.SessIn["uid"] == "" && rememberJustifies(s, st, rec.SessOut["uid"]) {
				continue
			}
			if k == "halfauth" && rec.SessIn["uid"] == "" {
				continue
			}
			vs = append(vs, vio("C10", "wrong-method-changed-session|"+rec.Method+"|"+k, "%s %s (configured logout method %s) changed session key %s: %q → %q", rec.Method, rec.Target, s.W.AB.Config.Modules.LogoutMethod, k, rec.SessIn[k], rec.SessOut[k]))
		}
	}
	if rec.SessIn["uid"] != "" && rec.CookiesIn["rm"] != rec.CookiesOut["rm"] {
		vs = append(vs, vio("C10", "wrong-method-changed-cookie|"+rec.Method, "%s %s changed the remember cookie of a logged-in browser", rec.Method, rec.Target))
	}
	return vs
}

func (m *c10mon) Post(s *sim.Sim, st *sim.Step) []*sim.Violation { return nil }

func (m *c10mon) Sig(s *sim.Sim, st *sim.Step) string {
	to, right := isLogoutReq(s, st.Rec)
	if !to {
		return ""
	}
	return fmt.Sprintf("%s/right=%v/%s/wl=%d/rm=%v/%s/expire=%v", st.Rec.Method, right, strings.Join(stateLabels(st.Rec.SessIn), "+"), len(s.Cfg.Whitelist), st.Rec.CookiesIn["rm"] != "", modeOf(s.Cfg), s.Cfg.UseExpire)
}

func c10Extra(s *sim.Sim) *sim.Action {
	// logout (mostly the configured method) followed — by the monitor's bookkeeping — by a visit
	r := s.R
	b := r.Intn(len(s.Br))
	switch r.Intn(10) {
	case 0, 1:
		a := act("logout", b, -9, "", "method", pickS(r, "GET", "POST", "DELETE", "PUT", "HEAD", "PATCH"))
		if s.N%2 == 1 {
			a.Opt["override"] = "1" // names the configured method in _method= (query and body) and in the override headers
		}
		return a
	case 2, 3, 4:
		return act("visit", b, -9, "", "route", pickS(r, "/protected/bare", "/public", "/protected/full"))
	case 6:
		// a logout link that carries a return target — same-site, off-site, malformed: logging out does
		// not depend on it
		return act("logout", b, -9, "", "redir", pickS(r, "/after", "//evil.example/", "https://evil.example/x", "/\\evil.example", "/\t/evil.example", "javascript:alert(1)", "%zz", "/x?y=1&z=2", " "))
	case 7:
		// the site's own middleware changes application keys in the very request that logs out
		a := act("logout", b, -9, "")
		if r.Intn(2) == 0 {
			a.Opt["_lang"] = pickS(r, "fr", "de")
		}
		if r.Intn(2) == 0 {
			a.Opt["_drop"] = pickS(r, "app_cart", "app_theme", "app_lang")
		}
		return a
	case 5:
		// the user table is unreachable while the browser logs out
		s.Pending = append(s.Pending, act("logout", b, -9, ""), act("visit", b, -9, "", "route", pickS(r, "/protected/bare", "/public")))
		return act("faultnext", b, -9, "", "op", "Load")
	}
	return act("logout", b, -9, "")
}

func init() {
	prof := &sim.Profile{W: map[string]int{}, MinLen: 30, MaxLen: 60, Extra: c10Extra, ExtraProb: 0.16}
	for k, v := range c01Profile.W {
		prof.W[k] = v
	}
	prof.W["logout"] = 0
	prof.W["totp_setup"], prof.W["sms_setup"], prof.W["ev_start"], prof.W["oauth_start"], prof.W["appset"] = 4, 4, 3, 6, 5
	prof.Cls = map[string]map[string]int{"login": {"ok": 80, "wrong": 12, "near": 4, "empty": 4}}
	register(&Check{
		ID: "C10", Level: "exploration",
		Rule:  "states are harvested, not hand-made: the mixed random histories of the C01 generator (all flows, all module subsets, whitelists of 0/1/3 application keys (in a sixth of the units also naming uid / halfauth / last_action, which a logout removes regardless), logout method GET/POST/DELETE) are cut at random points by a logout from whatever state the browser is in (logged in / half-authed via remember / mid-2FA login / mid-2FA setup / mid-e-mail-verify / mid-OAuth2 / SMS code outstanding / anonymous), followed by a visit; some logouts carry a redir parameter (same-site, off-site, malformed), some happen while the user table is unreachable (every user lookup of that request fails). Oracle: after the logout response the server-side session holds only whitelisted keys (values preserved) and flash keys, the jar has no rm cookie, the follow-up request is unauthenticated; any other method on /logout leaves uid, auth marks, pending logins and the cookie as they were. Every other wrong-method request also names the configured method the way method-override conventions do (_method= in query and body, X-HTTP-Method-Override). A sixth of the units whitelists short application keys (id, t, auth) that every browser holds: kept by every logout. distinct_nontrivial = distinct (method, configured?, state labels, whitelist size, cookie present, mode, expire installed) signatures.",
		Units: func(t string) int { return tierN(t, 700, 30000) },
		Run: func(c *RunCtx, unit int) {
			r := Rng(c.Seed, "C10", unit)
			cfg := randomCfg(r, "logout", "auth")
			if unit%6 == 5 && !cfg.UseExpire {
				// a whitelist that names one of the library's own identity keys next to application keys
				cfg.Whitelist = [][]string{{"app_theme", "uid"}, {"halfauth", "app_lang"}, {"last_action", "app_cart", "uid"}}[(unit/6)%3]
			}
			shortKeys := unit%6 == 2 && !cfg.UseExpire
			if shortKeys {
				// an application whose own whitelisted session keys have short names
				cfg.Whitelist = []string{"id", "t", "auth", "app_theme"}
			}
			s, err := sim.New(cfg, r, sim.SeedOpt{Accounts: 3, Browsers: 3, TwoFAProb: 0.4, Unconfirmed: 0.05})
			if err != nil {
				c.Stats.Inconclusive = append(c.Stats.Inconclusive, "world: "+err.Error())
				return
			}
			if shortKeys {
				for b := range s.Br {
					for _, kv := range [][2]string{{"id", "tenant-7"}, {"t", "d"}, {"auth", "sso"}} {
						st := s.Exec(act("appset", b, -9, "", "k", kv[0], "v", kv[1]))
						s.Learn(st)
					}
				}
				c.Stats.Count("units-with-short-whitelisted-keys")
			}
			sim.RunHistory(s, prof, []sim.Monitor{&c10mon{stats: c.Stats, after: map[int]bool{}}}, c.Stats, unit)
		},
		Floors: func(t string) map[string]int {
			return map[string]int{"logout-from:logged-in": 100, "logout-from:halfauth": 3, "logout-from:mid-2fa-login": 10, "logout-from:mid-2fa-setup": 3, "logout-from:mid-oauth2": 10,
				"logout-from:anonymous": 50, "logout-with-rm-cookie": 20, "whitelisted-kept": 10, "follow-up-after-logout": 50, "wrong-method:GET": 10, "logout-while-user-table-unreachable": 10}
		},
		Assumptions: []string{"flash_success/flash_error written by the logout redirect itself are not authentication state and are exempt"},
	})
}
