package checks

import (
	"fmt"
	"strings"

	"github.com/volatiletech/authboss/v3"
	"verif/sim"
	"verif/world"
)

// justify reports why the ledger allows the session of the step's browser to name U after this
// request ("" if nothing does). Evaluated before Learn.
func justify(s *sim.Sim, st *sim.Step, U string) string {
	rec := st.Rec
	if rec.Kind != "http" {
		return ""
	}
	// (c) remember cookie: no uid at request start, live unspent cookie issued to U
	if s.RememberActive() && rec.SessIn["uid"] == "" {
		if c := s.Cookies[rec.CookiesIn["rm"]]; c != nil && (c.State == sim.Live || c.State == sim.Limbo) && c.PID == U {
			return "remember-cookie"
		}
	}
	return justifyFlow(s, st, U)
}

// justifyFlow is justify without the remember-cookie clause: the login-type flows only.
func justifyFlow(s *sim.Sim, st *sim.Step, U string) string {
	a, rec := st.Act, st.Rec
	bs := s.Br[a.B]
	if rec.Kind != "http" {
		return ""
	}
	switch a.Kind {
	case "login", "otp_login":
		if pid, ok := s.PrimaryValid(st); ok && pid == U {
			return a.Kind
		}
	case "recover_end":
		if pid, ok := s.PrimaryValid(st); ok && pid == U {
			return "recover-login"
		}
	case "register":
		if a.PID == U && rec.Before.Users[U] == nil && rec.After.Users[U] != nil {
			return "register"
		}
	case "oauth_cb":
		// issued to this browser by a start request and still what its session holds (whether an
		// earlier failed callback should already have spent it is C14's question, not C01's)
		_, issued := bs.OAuthState[a.Secret]
		issued = issued || bs.OAuthSpent[a.Secret]
		if issued && a.Secret != "" && rec.SessIn["oauth2_state"] == a.Secret && s.W.Prov.LastReported != nil {
			id := s.W.Prov.LastReported
			if id.Provider == a.Opt["provider"] && authboss.MakeOAuth2PID(id.Provider, id.UID) == U {
				return "oauth2"
			}
		}
	case "totp_validate", "sms_validate":
		kind := strings.SplitN(a.Kind, "_", 2)[0]
		// the second-factor step of a login U's credential started in this session — and it has to be
		// U's second factor that the request proves ("another user's secrets" leave the identity alone)
		if p := bs.Pending[kind]; p != nil && p.PID == U && p.Justified && rec.SessIn[kind+"_pending"] == U && secondFactorProven(s, st, U, a.Kind) != "" {
			return "2fa-step"
		}
	}
	return ""
}

type c01mon struct{ stats *sim.Stats }

func (m c01mon) Check(s *sim.Sim, st *sim.Step) []*sim.Violation {
	var vs []*sim.Violation
	a, rec := st.Act, st.Rec
	if rec.DecoyCalls > 0 {
		// the credential this request carries was looked up / compared in ANOTHER instance's storage: whatever
		// comes of it, it is not "a credential of that account" here
		vs = append(vs, vio("C01", "credential-checked-against-another-instances-storage|"+a.Kind, "the request made %d backend calls on the second Authboss instance of the process (different storage, different modules) — a session issued by it would rest on that instance's accounts", rec.DecoyCalls))
		return vs
	}
	if s.W.HasDecoy() {
		m.stats.Count("requests-next-to-a-second-instance")
	}
	if len(st.Others) > 0 {
		vs = append(vs, vio("C01", "other-session-changed|"+a.Kind, "request of b%d changed another browser's session: %v", a.B, st.Others))
	}
	if st.UIDIn == st.UIDOut {
		return vs
	}
	if st.UIDOut == "" {
		switch {
		case rec.Kind == "http" && rec.Method == s.W.AB.Config.Modules.LogoutMethod && strings.SplitN(rec.Target, "?", 2)[0] == s.W.P("/logout") && s.Cfg.Has("logout"):
		case s.Cfg.UseExpire && rec.Kind == "http":
		case a.Kind == "dropsid":
		default:
			vs = append(vs, vio("C01", "uid-removed|"+a.Kind, "session identity %q removed by a request that is neither logout nor expiry", st.UIDIn))
		}
		return vs
	}
	j := justify(s, st, st.UIDOut)
	if j != "" {
		m.stats.Count("uid-set:" + j)
	}
	if j == "" {
		vs = append(vs, vio("C01", "unjustified|"+a.Kind+"|"+a.Resolved, "session of b%d became %q (was %q) but the request carried no valid credential of that account", a.B, st.UIDOut, st.UIDIn))
	}
	return vs
}

func (c01mon) Post(s *sim.Sim, st *sim.Step) []*sim.Violation { return nil }

func (c01mon) Sig(s *sim.Sim, st *sim.Step) string {
	a := st.Act
	if st.Rec.Kind != "http" {
		return ""
	}
	target := a.PID
	out := "same"
	if st.UIDIn != st.UIDOut {
		out = "changed"
		if st.UIDOut == "" {
			out = "cleared"
		}
	}
	return fmt.Sprintf("%s/%s/%s/%s/%s/%s", a.Kind, a.Resolved, acctClass(s, st.Rec.Before, target), sessClass(st.Rec.SessIn), modeOf(s.Cfg), out)
}

var c01Profile = &sim.Profile{
	W: map[string]int{
		"login": 22, "otp_login": 8, "otp_add": 5, "otp_clear": 1, "logout": 4, "register": 5, "recover_start": 5, "recover_end": 7,
		"confirm": 3, "oauth_start": 5, "oauth_cb": 7, "totp_validate": 6, "sms_validate": 6, "totp_setup": 1, "totp_confirm": 1,
		"sms_setup": 1, "sms_confirm": 1, "visit": 6, "get": 2, "advance": 3, "steal": 4, "dropsid": 3, "raw": 4, "admin_lock": 1,
		"admin_unlock": 1, "admin_updatepw": 1, "admin_startconfirm": 1, "appset": 1, "totp_remove": 1, "sms_remove": 1, "regen": 1,
		"ev_start": 1, "ev_end": 1, "faultnext": 3,
	},
	MinLen: 25, MaxLen: 55, Templates: c01Templates(), TplProb: 0.55, NoiseProb: 0.15,
}

// c01Templates: the directed scripts of the other checks are good C01 workloads too (they reach
// states a random walk seldom reaches), plus an OTP replay against a 2FA account.
func c01Templates() []sim.Template {
	var t []sim.Template
	t = append(t, c02Templates...)
	t = append(t, c03Templates...)
	t = append(t, c12Templates...)
	t = append(t, c13Templates...)
	own := sim.Template{Name: "otp-replay-against-2fa-account", F: func(s *sim.Sim) []*sim.Action {
		if !s.Cfg.Has("otp") || !s.Cfg.Has("auth") || len(s.Cfg.TwoFA) == 0 {
			return nil
		}
		kind := s.Cfg.TwoFA[s.R.Intn(len(s.Cfg.TwoFA))]
		v := findAcct(s, func(u *world.User) bool {
			return u.Confirmed && ((kind == "totp" && u.TOTPSecretKey != "") || (kind == "sms" && u.SMSPhone != "" && u.TOTPSecretKey == ""))
		})
		if v < 0 {
			return nil
		}
		k := kind + "_validate"
		return []*sim.Action{act("login", 0, v, "ok"), act(k, 0, -9, "ok"), act("otp_add", 0, -9, ""), act("otp_add", 0, -9, ""),
			act("otp_login", 1, v, "ok"), act(k, 1, -9, "ok"), act("advance", 1, -9, "", "d", "31s"),
			act("otp_login", 2, v, "spent"), act(k, 2, -9, "ok"), act("visit", 2, -9, "", "route", "/protected/bare")}
	}}
	for i := 0; i < 3; i++ { // weight
		t = append(t, own)
	}
	// a finished recovery is not a login credential for the second step (unless recovery is configured to log in)
	t = append(t, sim.Template{Name: "recovery-then-second-factor", F: func(s *sim.Sim) []*sim.Action {
		if !s.Cfg.Has("recover") || len(s.Cfg.TwoFA) == 0 {
			return nil
		}
		kind := s.Cfg.TwoFA[s.R.Intn(len(s.Cfg.TwoFA))]
		v := findAcct(s, func(u *world.User) bool {
			return u.Confirmed && ((kind == "totp" && u.TOTPSecretKey != "") || (kind == "sms" && u.SMSPhone != "" && u.TOTPSecretKey == ""))
		})
		if v < 0 {
			return nil
		}
		b := s.R.Intn(len(s.Br))
		e := act("recover_end", b, v, "current")
		e.Cls2 = "fresh"
		return []*sim.Action{act("recover_start", b, v, ""), e, act(kind+"_validate", b, -9, "ok"), act(kind+"_validate", b, -9, "recovery"), act("visit", b, -9, "", "route", "/protected/bare")}
	}})
	return t
}

func init() {
	register(&Check{
		ID: "C01", Level: "exploration",
		Rule:  "seeded random histories (25-55 requests, 3 browsers, 3-4 accounts) over random module subsets/load orders/modes; after EVERY request the browser's session uid is compared with the value before; a change to U must be justified by the ledger (valid password by bcrypt equivalence, unspent OTP, live remember cookie, live unexpired recovery token + login-after-recovery, OAuth2 callback with the session's unspent state and provider-reported identity, own registration, 2FA step of a justified pending login). A third of the worlds have a second, differently configured Authboss instance in the same process, initialised afterwards: a request that causes any backend call on THAT instance is a violation (the credential was checked against another instance's storage). distinct_nontrivial = number of distinct (flow, credential class, account state, session state, mode, uid outcome) signatures observed.",
		Units: func(t string) int { return tierN(t, 600, 30000) },
		Run: func(c *RunCtx, unit int) {
			r := Rng(c.Seed, "C01", unit)
			cfg := randomCfg(r)
			// at least one login path
			if !cfg.Has("auth") && !cfg.Has("otp") && !cfg.Has("oauth2") {
				cfg.Modules = append(cfg.Modules, "auth")
			}
			s, err := sim.New(cfg, r, sim.SeedOpt{Accounts: 3 + r.Intn(2), Browsers: 3, TwoFAProb: 0.4, Unconfirmed: 0.15})
			if err != nil {
				c.Stats.Inconclusive = append(c.Stats.Inconclusive, "world: "+err.Error())
				return
			}
			sim.RunHistory(s, c01Profile, []sim.Monitor{c01mon{c.Stats}}, c.Stats, unit)
		},
		Floors: func(t string) map[string]int {
			return map[string]int{"uid-set:login": 20, "uid-set:otp_login": 3, "uid-set:remember-cookie": 3, "uid-set:recover-login": 2, "uid-set:oauth2": 5, "uid-set:register": 3, "uid-set:2fa-step": 3, "requests-next-to-a-second-instance": 1000}
		},
		Assumptions: []string{
			"storer/session/cookie stores are the harness' (copying DB, server-side sessions keyed by a sid cookie, real Set-Cookie); an integrator's stores may differ",
			"password equality is bcrypt's (first 72 bytes of password||NUL, cyclic), not byte equality",
			"OTP login is reachable because the harness body reader maps page 'otplogin' to 'login' (the shipped reader does not know the otp page)",
		},
	})
}

// world import keeper
var _ = world.RootURL
