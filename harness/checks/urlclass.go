package checks

import (
	"net/url"
	"strings"
)

// A browser-faithful classifier of redirect targets: the relevant states of the WHATWG URL
// parser (scheme start / scheme / no scheme / special relative or authority / special authority
// slashes / special authority ignore slashes / relative / relative slash / authority / host)
// resolving a location string against the site origin.
//
// Result: "same" (same origin), "off" (another origin, or a non-navigable / non-special scheme
// such as javascript: or data:), "invalid" (the parser fails: no navigation happens).

var specialSchemes = map[string]string{"http": "80", "https": "443", "ftp": "21", "ws": "80", "wss": "443", "file": ""}

const siteHost = "site.test"

func isAlpha(c byte) bool { return (c >= 'a' && c <= 'z') || (c >= 'A' && c <= 'Z') }
func isAlnum(c byte) bool { return isAlpha(c) || (c >= '0' && c <= '9') }

// classifyURL classifies s against base scheme://site.test/auth/login.
func classifyURL(s, baseScheme string) string {
	// 1. strip leading and trailing C0 control or space
	for len(s) > 0 && s[0] <= 0x20 {
		s = s[1:]
	}
	for len(s) > 0 && s[len(s)-1] <= 0x20 {
		s = s[:len(s)-1]
	}
	// 2. remove all ASCII tab or newline
	s = strings.NewReplacer("\t", "", "\n", "", "\r", "").Replace(s)
	// 3. scheme
	scheme := ""
	rest := s
	if len(s) > 0 && isAlpha(s[0]) {
		i := 1
		for i < len(s) && (isAlnum(s[i]) || s[i] == '+' || s[i] == '-' || s[i] == '.') {
			i++
		}
		if i < len(s) && s[i] == ':' {
			scheme = strings.ToLower(s[:i])
			rest = s[i+1:]
		}
	}
	if scheme != "" {
		if _, special := specialSchemes[scheme]; !special {
			return "off" // javascript:, data:, mailto:, custom schemes …
		}
		if scheme == "file" {
			return "off"
		}
		if scheme == baseScheme {
			// special relative or authority state
			if len(rest) >= 2 && rest[0] == '/' && rest[1] == '/' {
				return authority(rest[2:], scheme)
			}
			// relative state (note: "\" after the scheme counts as "/")
			return relative(rest, scheme)
		}
		// special authority slashes state → special authority ignore slashes state
		return authority(rest, scheme)
	}
	return relative(rest, baseScheme)
}

func relative(rest, scheme string) string {
	slash := func(c byte) bool { return c == '/' || c == '\\' }
	if len(rest) > 0 && slash(rest[0]) {
		// relative slash state
		if len(rest) > 1 && slash(rest[1]) {
			return authority(rest[2:], scheme)
		}
		return "same"
	}
	return "same" // path-relative, ?query, #fragment, empty
}

// authority: special authority ignore slashes state, then authority + host + port states.
func authority(rest, scheme string) string {
	for len(rest) > 0 && (rest[0] == '/' || rest[0] == '\\') {
		rest = rest[1:]
	}
	end := len(rest)
	for i := 0; i < len(rest); i++ {
		if c := rest[i]; c == '/' || c == '\\' || c == '?' || c == '#' {
			end = i
			break
		}
	}
	auth := rest[:end]
	if i := strings.LastIndexByte(auth, '@'); i >= 0 {
		auth = auth[i+1:]
	}
	host, port := auth, ""
	if strings.HasPrefix(auth, "[") {
		j := strings.IndexByte(auth, ']')
		if j < 0 {
			return "invalid"
		}
		host, port = auth[:j+1], strings.TrimPrefix(auth[j+1:], ":")
	} else if i := strings.LastIndexByte(auth, ':'); i >= 0 {
		host, port = auth[:i], auth[i+1:]
	}
	if dec, err := url.PathUnescape(host); err == nil {
		host = dec
	}
	host = strings.ToLower(host)
	if host == "" {
		return "invalid" // special schemes need a host
	}
	for i := 0; i < len(port); i++ {
		if port[i] < '0' || port[i] > '9' {
			return "invalid"
		}
	}
	if strings.ContainsAny(host, " <>^|%") {
		return "invalid" // forbidden host code points
	}
	def := specialSchemes[scheme]
	if host == siteHost && (port == "" || port == def) {
		return "same"
	}
	return "off"
}

// classify resolves against both an https and an http deployment of the site: a value is
// off-site if a browser would leave the origin in either.
func classify(s string) string {
	a, b := classifyURL(s, "https"), classifyURL(s, "http")
	switch {
	case a == "off" || b == "off":
		return "off"
	case a == "invalid" && b == "invalid":
		return "invalid"
	}
	return "same"
}

// onTheWire is what net/http puts into a header value: CR and LF become spaces.
func onTheWire(v string) string {
	return strings.NewReplacer("\r", " ", "\n", " ").Replace(v)
}

// table-driven self test of the classifier (it is the trusted part of C15)
var urlclassTable = []struct{ in, want string }{
	{"/", "same"}, {"/after/login", "same"}, {"/x?y=1", "same"}, {"relative/path", "same"}, {"?q=1", "same"}, {"#frag", "same"}, {"", "same"},
	{"/a//b", "same"}, {"/a/\\b", "same"}, {"/ /evil.example", "same"}, {"/%2F/evil.example", "same"}, {"/%09/evil.example", "same"},
	{"https://site.test/x", "same"}, {"HTTPS://SITE.TEST/x", "same"}, {"//site.test/x", "same"}, {"https://site.test:443/x", "same"},
	{"https://evil.example", "off"}, {"http://evil.example/x", "off"}, {"HtTp://evil.example", "off"}, {"ftp://evil.example", "off"},
	{"//evil.example", "off"}, {"//evil.example/x", "off"}, {"///evil.example", "off"}, {"////evil.example/x", "off"},
	{"/\\evil.example", "off"}, {"\\/evil.example", "off"}, {"\\\\evil.example", "off"}, {"/\\/evil.example", "off"},
	{"/\t/evil.example", "off"}, {"/\n/evil.example", "off"}, {"/\r/evil.example", "off"}, {"\t//evil.example", "off"}, {" //evil.example", "off"},
	{"\x00//evil.example", "off"}, {"\x1f//evil.example", "off"}, {"//evil.example ", "off"},
	{"https:evil.example", "off"}, {"http:evil.example", "off"}, {"https:/evil.example", "off"}, {"http:/evil.example", "off"}, {"https:\\\\evil.example", "off"},
	{"ht\ttps://evil.example", "off"}, {"h\nttp://evil.example", "off"},
	{"//site.test@evil.example", "off"}, {"//site.test:x@evil.example/", "off"}, {"//evil.example\\@site.test", "off"}, {"//evil.example#@site.test", "off"},
	{"//evil.example?@site.test", "off"}, {"//site.test.evil.example", "off"}, {"//site.test:8443/", "off"}, {"https://site.test:80/", "off"},
	{"//[::1]/x", "off"}, {"//[::1]:8080", "off"}, {"//evil.example:443", "off"}, {"//EVIL.example", "off"},
	{"javascript:alert(1)", "off"}, {"JaVaScRiPt:alert(1)", "off"}, {"java\tscript:alert(1)", "off"}, {"data:text/html,x", "off"}, {"mailto:a@b", "off"}, {"x-app://open", "off"},
	{"//", "invalid"}, {"///", "invalid"}, {"https://", "invalid"}, {"//:80", "invalid"}, {"//a b/", "invalid"},
	{"/./\\evil.example/", "same"}, {"/x/..//evil.example", "same"}, {"/.//evil.example/", "same"},
	{"/path:with:colons", "same"}, {"1http://evil.example", "same"}, {"./http://evil.example", "same"}, {"/http://evil.example", "same"}, {"/x?u=http://evil.example", "same"},
	{"//site%2etest/x", "same"}, {"//site.test\\@evil.example", "same"},
}

func urlclassSelfTest() string {
	for _, t := range urlclassTable {
		if got := classify(t.in); got != t.want {
			return "classifier self-test: " + t.in + " classified " + got + ", want " + t.want
		}
	}
	return ""
}
