package checks

import (
	"errors"
	"fmt"
	"net/http"
	"net/url"
	"path"
	"strings"

	"github.com/volatiletech/authboss/v3"
	"github.com/volatiletech/authboss/v3/remember"
	"verif/sim"
	"verif/world"
)

var c08Paths = []string{"/p", "/a%20b", "/%C3%BCn%C3%AF", "/a/../b", "//dbl", "/" + strings.Repeat("long/", 60) + "x", "/p/", "/semi;colon", "/pct%2Fslash", "/dot/./seg", "/q%3Fmark", "/plus+sign", "/"}
var c08Queries = []string{"", "next=https://app.example.com/cb", "file=a/../b", "p=a/./b", "dir=/x/", "u=//host/p", "a=1&b=2", "x=%23frag", "q=a+b", "k=v&k=w", "e=", "%zz", "redir=/elsewhere", "a=b=c&&", "u=%C3%BC", strings.Repeat("k=v&", 200) + "z=1"}

func c08Unit(c *RunCtx, unit int) {
	if unit >= 4 {
		// the same refusal under concurrency: one middleware instance, many anonymous clients at once
		r := Rng(c.Seed, "C08", unit)
		msg, n, err := gateBurst(r.Int63(), unit%2 == 1, 8, tierN(c.Tier, 150, 1500))
		if err != nil {
			c.Stats.Inconclusive = append(c.Stats.Inconclusive, "server: "+err.Error())
			return
		}
		c.Stats.Evaluations += n
		c.Stats.Add("concurrent-refusals", n)
		if msg != "" {
			v := vio("C08", "redirect-carries-another-requests-target|concurrent", "%s (one middleware instance serving 8 clients at once)", msg)
			c.Stats.Violations = append(c.Stats.Violations, sim.VioRec{Violation: *v, Index: unit})
		}
		return
	}
	// unit encodes (mount, mode); every unit enumerates the remaining 1296 cells completely
	mounts := []string{"", "/auth"}
	mount := mounts[unit%2]
	jsonMode := (unit/2)%2 == 1
	r := Rng(c.Seed, "C08", unit)
	cfg := world.Cfg{Modules: []string{"auth"}, Mount: mount, JSON: jsonMode}
	w, err := world.New(cfg, "c08")
	if err != nil {
		c.Stats.Inconclusive = append(c.Stats.Inconclusive, "world: "+err.Error())
		return
	}
	w.Store.Put(&world.User{PID: "known@site.test", Email: "known@site.test", Password: sim.Hash4("x"), Confirmed: true})
	c.Stats.Histories++
	uids := []string{"", "ghost@site.test", "known@site.test"}
	fails := []authboss.MWRespondOnFailure{authboss.RespondNotFound, authboss.RespondRedirect, authboss.RespondUnauthorized}
	failName := []string{"NotFound", "Redirect", "Unauthorized"}
	stor := []string{"ok", "generic-error", "notfound-error"}
	nb := 0
	for ui, uid := range uids {
		for half := 0; half < 2; half++ {
			for two := 0; two < 3; two++ { // 0: no mark, 1: twofactor=totp, 2: only the e-mail authorisation for 2FA SETUP (twofactor_authed), which is no second factor
				for reqs := 0; reqs < 4; reqs++ {
					for fi, fl := range fails {
						for mp := 0; mp < 2; mp++ {
							for si, so := range stor {
								// wiring order: in every other cell the middleware is built BEFORE the application has set
								// its final mount path (a router assembled while configuration is still being read); what
								// counts is the configuration in force when a request is refused
								finalMount := w.AB.Config.Paths.Mount
								early := (ui+half+two+reqs+fi+mp+si)%2 == 1
								if early {
									w.AB.Config.Paths.Mount = "/not-yet-configured"
									c.Stats.Count("cells-with-middleware-built-before-mount-was-set")
								}
								guarded := authboss.MountedMiddleware2(w.AB, mp == 1, authboss.MWRequirements(reqs), fl)(w.ProbeHandler("c08"))
								judgeReqs := reqs
								if (ui+half+two+reqs+fi+mp+si)%3 == 0 {
									if !(uid == "known@site.test" && so == "ok") {
										judgeReqs = 0 // the outer instance is the one that answers (refusal or storage error)
									}
									// the usual layout of a "logged-in" route group with a stricter group nested inside it: an
									// outer instance that only asks for a user around the instance under test — the handler runs
									// iff BOTH admit, and whoever refuses answers in the same mode
									guarded = authboss.MountedMiddleware2(w.AB, mp == 1, authboss.RequireNone, fl)(guarded)
									c.Stats.Count("cells-nested-in-a-require-none-group")
								}
								preloaded := ui == 1 && so == "ok" && (half+two+reqs+fi+mp)%2 == 0
								if preloaded {
									// an application middleware in front that resolves the visitor through the library and
									// carries on whatever the answer (a data injector); the session names an account that is
									// gone, and the storer answers such a miss with a nil *User inside a non-nil interface
									inner := guarded
									guarded = http.HandlerFunc(func(rw http.ResponseWriter, r *http.Request) {
										w.AB.LoadCurrentUser(&r)
										inner.ServeHTTP(rw, r)
									})
									c.Stats.Count("cells-behind-a-tolerant-preloader")
								}
								w.Store.TypedNilOnMiss = preloaded
								h := w.AB.LoadClientStateMiddleware(guarded)
								w.AB.Config.Paths.Mount = finalMount
								// the deprecated bool-flag wrappers express the same requirements for two of the refusal modes
								var hOld http.Handler
								if fi != 2 {
									if mp == 1 {
										hOld = w.AB.LoadClientStateMiddleware(authboss.MountedMiddleware(w.AB, true, fi == 1, reqs&1 != 0, reqs&2 != 0)(w.ProbeHandler("c08")))
									} else {
										hOld = w.AB.LoadClientStateMiddleware(authboss.Middleware(w.AB, fi == 1, reqs&1 != 0, reqs&2 != 0)(w.ProbeHandler("c08")))
									}
								}
								cell := fmt.Sprintf("uid=%d half=%d 2fa=%d reqs=%d fail=%s mountPathed=%d mount=%q storage=%s mode=%s", ui, half, two, reqs, failName[fi], mp, mount, so, modeOf(cfg))
								c.Stats.Count("cells")
								// targets: a seeded sample of 5 plus the plain one
								targets := []string{"/p"}
								for k := 0; k < tierN(c.Tier, 5, 60); k++ {
									t := c08Paths[r.Intn(len(c08Paths))]
									if q := c08Queries[r.Intn(len(c08Queries))]; q != "" {
										t += "?" + q
									}
									targets = append(targets, t)
								}
								if fi == 1 && jsonMode && ui == 0 && si == 0 {
									// this instance's very first refusal happens while the renderer is down (the API redirect
									// cannot be rendered): not judged — but every later refusal of the same instance is what
									// the configuration says, the instance keeps no memory of the incident
									nb++
									w.FaultOps = map[string]error{"render": errors.New("renderer down")}
									w.DoOn(h, world.NewBrowser(nb), world.Req{Method: "GET", Path: "/p"})
									w.FaultOps = nil
									c.Stats.Count("instances-whose-first-refusal-failed-to-render")
								}
								for _, tgt := range targets {
									nb++
									b := world.NewBrowser(nb)
									if uid != "" {
										w.Sess.Set(b, "uid", uid)
									}
									if half == 1 {
										w.Sess.Set(b, "halfauth", "true")
									}
									switch two {
									case 1:
										w.Sess.Set(b, "twofactor", "totp")
									case 2:
										w.Sess.Set(b, "twofactor_authed", "true")
										w.Sess.Set(b, "twofactor_authed_pid", uid)
									}
									if uid == "" && half == 0 && two == 0 && r.Intn(2) == 0 {
										w.Sess.Set(b, "app_theme", "dark") // a session without any auth key
									}
									switch si {
									case 1:
										w.FaultOps = map[string]error{"Load": errors.New("db down")}
									case 2:
										w.FaultOps = map[string]error{"Load": authboss.ErrUserNotFound}
									}
									// the decision is about the session, not about the request's dressing: a third of the visits come
									// as an OPTIONS request that looks like a cross-origin script's preflight
									rq := world.Req{Method: "GET", Path: tgt}
									if nb%3 == 2 {
										rq = world.Req{Method: "OPTIONS", Path: tgt, Hdr: map[string]string{"Access-Control-Request-Method": "POST", "Origin": "https://other.example"}}
										c.Stats.Count("preflight-dressed-visits")
									}
									rec := w.DoOn(h, b, rq)
									c.Stats.Evaluations++
									if v := c08Judge(w, rec, uid, half == 1, two == 1, judgeReqs, fi, mp == 1, so, tgt); v != nil {
										v.Msg = "cell[" + cell + "] target " + trunc(tgt, 80) + ": " + v.Msg
										c.Stats.Violations = append(c.Stats.Violations, sim.VioRec{Violation: *v, Index: unit, Cfg: cfg.String(), History: []string{cell, rq.Method + " " + trunc(tgt, 200)},
											Detail: fmt.Sprintf("status=%d location=%q body=%q probe=%v panic=%q", rec.Status, rec.Location, trunc(rec.RespBody, 200), rec.Probe.Ran, rec.Panic)})
										return
									}
									if hOld != nil && tgt == "/p" {
										b2 := b.Clone()
										switch si {
										case 1:
											w.FaultOps = map[string]error{"Load": errors.New("db down")}
										case 2:
											w.FaultOps = map[string]error{"Load": authboss.ErrUserNotFound}
										}
										rec2 := w.DoOn(hOld, b2, world.Req{Method: "GET", Path: tgt})
										c.Stats.Evaluations++
										c.Stats.Count("deprecated-api-cells")
										if v := c08Judge(w, rec2, uid, half == 1, two == 1, reqs, fi, mp == 1, so, tgt); v != nil {
											v.Sig += "|deprecated-bool-flag-api"
											v.Msg = "deprecated Middleware/MountedMiddleware, cell[" + cell + "]: " + v.Msg
											c.Stats.Violations = append(c.Stats.Violations, sim.VioRec{Violation: *v, Index: unit, Cfg: cfg.String(), History: []string{cell, "GET " + tgt}})
											return
										}
									}
									out := "ran"
									if !rec.Probe.Ran {
										out = fmt.Sprint(rec.Status)
									}
									c.Stats.Sig(fmt.Sprintf("%s → %s", cell, out))
								}
							}
						}
					}
				}
			}
		}
	}
	// "... carrying the original path and query so that login returns there": the refused visitor follows the
	// redirect, logs in with the carried target, and lands where he wanted to go — for plain targets (letters of
	// any script, digits, / . _ - ~ and an ordinary query), which no layer has a reason to touch
	w.Store.TypedNilOnMiss = false
	for mp := 0; mp < 2; mp++ {
		h := w.AB.LoadClientStateMiddleware(authboss.MountedMiddleware2(w.AB, mp == 1, authboss.RequireNone, authboss.RespondRedirect)(w.ProbeHandler("c08")))
		for _, tgt := range []string{"/p", "/kunden/müller/akte", "/wiki/東京?tab=2", "/a/b-c_d.e~f?x=1&y=2", "/страница/Ωmega"} {
			nb++
			b := world.NewBrowser(nb)
			rec := w.DoOn(h, b, world.Req{Method: "GET", Path: (&url.URL{Path: strings.SplitN(tgt, "?", 2)[0]}).EscapedPath() + map[bool]string{true: "?" + strings.SplitN(tgt+"?", "?", 3)[1], false: ""}[strings.Contains(tgt, "?")]})
			loc, err := url.Parse(rec.Location)
			if err != nil || loc.Query().Get("redir") == "" {
				c.Stats.Inconclusive = append(c.Stats.Inconclusive, fmt.Sprintf("c08 return: refusal of %q carried no redir (%q)", tgt, rec.Location))
				return
			}
			carried := loc.Query().Get("redir")
			// (an API client keeps the target in the URL of the login request: the JSON document is not where the
			// redirector looks)
			rec2 := w.Do(b, world.Req{Method: "POST", Path: w.P("/login") + "?redir=" + url.QueryEscape(carried), Form: map[string]string{"email": "known@site.test", "password": "x"}})
			c.Stats.Evaluations++
			c.Stats.Count("logins-after-a-refusal")
			want := carried
			if rec2.Header.Get("Location") != "" {
				var sb strings.Builder
				for i := 0; i < len(carried); i++ { // net/http writes non-ASCII bytes of a Location percent-encoded
					if carried[i] >= 0x80 {
						fmt.Fprintf(&sb, "%%%02x", carried[i])
					} else {
						sb.WriteByte(carried[i])
					}
				}
				want = sb.String()
			}
			if rec2.SessOut["uid"] != "known@site.test" {
				c.Stats.Inconclusive = append(c.Stats.Inconclusive, "c08 return: the login itself failed: "+rec2.HandlerErr)
				return
			}
			if rec2.Location != want {
				v := vio("C08", "login-does-not-return-to-the-refused-target", "refused at %q, redirected to the login page with redir=%q; after a successful login with that value the browser is sent to %q, not to %q", tgt, carried, rec2.Location, want)
				c.Stats.Violations = append(c.Stats.Violations, sim.VioRec{Violation: *v, Index: unit, Cfg: cfg.String(), History: []string{"GET " + tgt, "POST /login redir=" + carried}})
				return
			}
		}
	}
	// the same table for an identity that comes from the remember-me cookie IN THIS VERY REQUEST (no
	// stored session at all): such a request is half-authenticated. Run with a session store that answers
	// an empty state object and with one that answers a nil state for visitors it knows nothing about.
	for _, nilState := range []bool{false, true} {
		cfg2 := world.Cfg{Modules: []string{"auth", "remember"}, Mount: mount, JSON: jsonMode, NilSessionState: nilState}
		w2, err := world.New(cfg2, "c08r")
		if err != nil {
			c.Stats.Inconclusive = append(c.Stats.Inconclusive, "world: "+err.Error())
			return
		}
		w2.Store.Put(&world.User{PID: "known@site.test", Email: "known@site.test", Password: sim.Hash4("x"), Confirmed: true})
		for reqs := 0; reqs < 4; reqs++ {
			for fi, fl := range fails {
				for mp := 0; mp < 2; mp++ {
					nb++
					b := world.NewBrowser(nb)
					if rec := w2.Do(b, world.Req{Method: "POST", Path: w2.P("/login"), Form: map[string]string{"email": "known@site.test", "password": "x", "rm": "true"}}); b.Jar["rm"] == "" {
						c.Stats.Inconclusive = append(c.Stats.Inconclusive, fmt.Sprintf("C08: login with rm=true issued no cookie (status %d)", rec.Status))
						return
					}
					delete(b.Jar, world.SidCookie) // the session is gone, the cookie stays
					h := w2.AB.LoadClientStateMiddleware(remember.Middleware(w2.AB)(authboss.MountedMiddleware2(w2.AB, mp == 1, authboss.MWRequirements(reqs), fl)(w2.ProbeHandler("c08"))))
					rec := w2.DoOn(h, b, world.Req{Method: "GET", Path: "/p"})
					c.Stats.Evaluations++
					c.Stats.Count("remember-cookie-cells")
					cell := fmt.Sprintf("identity=remember-cookie-in-this-request nil-session-state=%v reqs=%d fail=%s mountPathed=%d mount=%q mode=%s", nilState, reqs, failName[fi], mp, mount, modeOf(cfg2))
					if v := c08Judge(w2, rec, "known@site.test", true, false, reqs, fi, mp == 1, "ok", "/p"); v != nil {
						v.Sig += "|identity-from-remember-cookie"
						v.Msg = "cell[" + cell + "]: " + v.Msg
						c.Stats.Violations = append(c.Stats.Violations, sim.VioRec{Violation: *v, Index: unit, Cfg: cfg2.String(), History: []string{cell, "GET /p"},
							Detail: fmt.Sprintf("status=%d location=%q probe=%v", rec.Status, rec.Location, rec.Probe.Ran)})
						return
					}
					out := "ran"
					if !rec.Probe.Ran {
						out = fmt.Sprint(rec.Status)
					}
					c.Stats.Sig(fmt.Sprintf("%s → %s", cell, out))
				}
			}
		}
	}
	c.Stats.Sample(map[string]interface{}{"unit": unit, "mount": mount, "mode": modeOf(cfg), "cells_enumerated": 1296, "example_cell": "uid=2 half=1 2fa=0 reqs=1 fail=Redirect mountPathed=1 storage=ok → 302 to <mount>/login?redir=<mount+path?query>"})
}

func c08Judge(w *world.World, rec *world.Rec, uid string, half, two bool, reqs, fail int, mountPathed bool, storage, tgt string) *sim.Violation {
	if rec.Panic != "" {
		return vio("C08", "panic", "middleware panicked: %s", trunc(rec.Panic, 120))
	}
	reqOK := (reqs&1 == 0 || !half) && (reqs&2 == 0 || two)
	loads := reqOK && uid != ""
	userOK := loads && uid == "known@site.test" && storage == "ok"
	wantRun := reqOK && userOK
	if rec.Probe.Ran != wantRun {
		return vio("C08", fmt.Sprintf("handler-ran=%v-want=%v|reqs=%d", rec.Probe.Ran, wantRun, reqs), "handler ran=%v, the truth table says %v", rec.Probe.Ran, wantRun)
	}
	if wantRun {
		if rec.Probe.UserPID != uid {
			return vio("C08", "handler-saw-other-user", "handler saw user %q, session names %q", rec.Probe.UserPID, uid)
		}
		return nil
	}
	if loads && storage == "generic-error" {
		if rec.Status != 500 {
			return vio("C08", "storage-error-not-500", "storage error answered with %d, want 500", rec.Status)
		}
		return nil
	}
	switch fail {
	case 0:
		if rec.Status != 404 {
			return vio("C08", "refusal-not-404", "refusal status %d, want 404", rec.Status)
		}
	case 2:
		if rec.Status != 401 {
			return vio("C08", "refusal-not-401", "refusal status %d, want 401", rec.Status)
		}
	case 1:
		wantStatus := 302
		if w.Cfg.JSON {
			wantStatus = 307
		}
		if rec.Status != wantStatus {
			return vio("C08", "refusal-not-redirect", "refusal status %d, want %d", rec.Status, wantStatus)
		}
		loc, err := url.Parse(rec.Location)
		if err != nil {
			return vio("C08", "redirect-unparsable", "redirect location %q does not parse", rec.Location)
		}
		if loc.Path != path.Join(w.Cfg.Mount, "/login") || loc.Host != "" {
			return vio("C08", "redirect-not-to-login", "redirect goes to %q, want %s", rec.Location, path.Join(w.Cfg.Mount, "/login"))
		}
		u, _ := url.Parse("https://site.test" + tgt)
		wantPath := u.Path
		normalised := false
		if mountPathed && w.Cfg.Mount != "" {
			wantPath = w.Cfg.Mount + u.Path
			if path.Join(w.Cfg.Mount, u.Path) != wantPath {
				normalised = true // the library path.Join()s here; how dot segments / double slashes are normalised is not specified
			}
		}
		want := wantPath
		if u.RawQuery != "" {
			want += "?" + u.RawQuery
		}
		got := loc.Query().Get("redir")
		if !normalised && got != want {
			return vio("C08", "redirect-does-not-carry-original-target", "redir parameter is %q, want %q", trunc(got, 120), trunc(want, 120))
		}
		if normalised && u.RawQuery != "" && !strings.HasSuffix(got, "?"+u.RawQuery) {
			return vio("C08", "redirect-drops-query", "redir parameter %q lost the query %q", trunc(got, 120), trunc(u.RawQuery, 60))
		}
	}
	return nil
}

func init() {
	register(&Check{
		ID: "C08", Level: "exploration", Exhaustive: true,
		Rule:  "complete enumeration of the truth table: session uid {absent, unknown to storage, known} x halfauth mark x 2FA mark {none, twofactor, only the 2FA-setup e-mail authorisation} x requirement bits {0,1,2,3} x refusal mode {404, redirect, 401} x mountPathed (and, for the two refusal modes they can express, the deprecated bool-flag wrappers Middleware/MountedMiddleware against the same table) x Mount {'', '/auth'} x storage outcome {ok, generic error, not-found} x body mode {form, JSON} = 5184 cells, every one executed against the real MountedMiddleware2 behind LoadClientStateMiddleware with hand-made server-side session contents; each cell with the plain target plus 5 seeded targets from a corpus of hostile paths (spaces, non-ASCII, dot segments, double slashes, 300-byte paths, encoded '/', '?', ';') and queries ('&', '=', '%23', '+', repeated keys, bad escapes, 800 bytes, an own redir=). In every other cell the middleware is constructed while Paths.Mount still holds a placeholder (wiring order); the configuration in force when the request is refused counts. Oracle: handler ran <=> known user & requirements & storage ok; otherwise exactly 404 / 401 / redirect to <Mount>/login whose decoded redir equals path[+mount]?rawquery / 500 on storage error. exhaustive=true refers to the cell table; targets are sampled. Plus 192 cells in which the identity comes from the remember-me cookie in the very request (no stored session; session store answering an empty state object or a nil state): half-authenticated by definition. Two further units fire 8 anonymous clients x 150 (thorough: 1500) requests concurrently at ONE redirect-mode middleware instance behind a real server: each must be redirected with its own target. Every third cell nests the instance under test inside an outer RequireNone instance (the handler runs iff both admit; whoever refuses first answers). Cells whose session names a vanished account also run behind a tolerant LoadCurrentUser pre-loader with a storer that answers a miss with a nil *User inside a non-nil interface. After the table, the refused visitor of a redirect-mode middleware logs in with the carried target (plain paths in Latin, Cyrillic, Greek and CJK letters, with and without a query) and must be sent exactly there. In API-mode redirect cells the instance's first refusal happens while the renderer is down (not judged): every later refusal of that instance is still the configured one. distinct_nontrivial = distinct (cell → outcome) pairs.",
		Units: func(t string) int { return 6 },
		Run:   c08Unit,
		Floors: func(t string) map[string]int {
			return map[string]int{"cells": 5184, "deprecated-api-cells": 3456, "remember-cookie-cells": 192, "concurrent-refusals": 2000, "cells-with-middleware-built-before-mount-was-set": 2000, "logins-after-a-refusal": 40}
		},
		Assumptions: []string{"for mountPathed routes the library path.Join()s mount and path; targets whose path that call would normalise (dot segments, '//', trailing '/') are only required to keep their query"},
	})
}
