package checks

import (
	"bufio"
	"bytes"
	"context"
	"encoding/base64"
	"encoding/json"
	"fmt"
	xoauth2 "golang.org/x/oauth2"
	"hash/fnv"
	"image/png"
	"io"
	"math/rand"
	"net"
	"net/http"
	"net/http/httptest"
	"net/url"
	"os"
	"path/filepath"
	"regexp"
	"runtime"
	"sort"
	"strconv"
	"strings"
	"sync"
	"time"

	"github.com/pquerna/otp"
	"github.com/volatiletech/authboss/v3"
	"github.com/volatiletech/authboss/v3/confirm"
	"github.com/volatiletech/authboss/v3/defaults"
	"github.com/volatiletech/authboss/v3/lock"
	"github.com/volatiletech/authboss/v3/otp/twofactor/sms2fa"
	"github.com/volatiletech/authboss/v3/otp/twofactor/totp2fa"
	"github.com/volatiletech/authboss/v3/remember"
	"verif/sim"
	"verif/world"
)

// ------------------------------------------------------------------------------------------
// a real server: shipped defaults everywhere, harness-owned (mutex-protected) stores

type lockedBuf struct {
	mu sync.Mutex
	b  bytes.Buffer
	// which Send wrote which stretch of the buffer (mail log only): the id of the Mailer.Send call the
	// writing goroutine is inside of, one entry per Write
	sends  map[uint64]int // goroutine → active Send id
	nsend  int
	chunks []int
}

func (l *lockedBuf) Write(p []byte) (int, error) {
	l.mu.Lock()
	defer l.mu.Unlock()
	if l.sends != nil {
		l.chunks = append(l.chunks, l.sends[goid()])
	}
	return l.b.Write(p)
}

// interleaved reports whether the writes of some Send are not contiguous in the buffer, i.e. two
// messages are mixed in the mail log.
func (l *lockedBuf) interleaved() (bool, int) {
	l.mu.Lock()
	defer l.mu.Unlock()
	closed := map[int]bool{}
	prev := 0
	for _, id := range l.chunks {
		if id != prev {
			if closed[id] {
				return true, len(l.chunks)
			}
			closed[prev] = true
			prev = id
		}
	}
	return false, len(l.chunks)
}

// goid is the id of the calling goroutine (monitor bookkeeping only).
func goid() uint64 {
	var buf [64]byte
	n := runtime.Stack(buf[:], false)
	f := strings.Fields(string(buf[:n]))
	if len(f) < 2 {
		return 0
	}
	id, _ := strconv.ParseUint(f[1], 10, 64)
	return id
}

// trackedMailer delegates to the shipped mailer and tells the mail log which Send is writing.
type trackedMailer struct {
	inner authboss.Mailer
	log   *lockedBuf
}

func (t trackedMailer) Send(ctx context.Context, e authboss.Email) error {
	g := goid()
	t.log.mu.Lock()
	t.log.nsend++
	t.log.sends[g] = t.log.nsend
	t.log.mu.Unlock()
	defer func() {
		t.log.mu.Lock()
		delete(t.log.sends, g)
		t.log.mu.Unlock()
	}()
	return t.inner.Send(ctx, e)
}

func (l *lockedBuf) String() string {
	l.mu.Lock()
	defer l.mu.Unlock()
	return l.b.String()
}

// fakeSMTP is a minimal in-process SMTP server on loopback collecting messages.
type fakeSMTP struct {
	ln   net.Listener
	mu   sync.Mutex
	msgs []string
	envs []string // envelope recipients of msgs[i], comma-joined
	jit  func()
	// stall: a relay that is slow for one recipient — the dialogue of a message to stallRcpt is held after
	// RCPT until release is closed; stalled is closed when that happens
	failRcpt  string // RCPT for this address is answered 451: the delivery fails after the message was built
	failed    int
	stallRcpt string
	stalled   chan struct{}
	release   chan struct{}
	stallOnce sync.Once
}

func newFakeSMTP(jit func()) (*fakeSMTP, error) {
	ln, err := net.Listen("tcp", "127.0.0.1:0")
	if err != nil {
		return nil, err
	}
	f := &fakeSMTP{ln: ln, jit: jit}
	go func() {
		for {
			c, err := ln.Accept()
			if err != nil {
				return
			}
			go f.serve(c)
		}
	}()
	return f, nil
}

func (f *fakeSMTP) serve(c net.Conn) {
	defer c.Close()
	f.jit()
	r := bufio.NewReader(c)
	fmt.Fprintf(c, "220 fake ESMTP\r\n")
	var envelope []string // accepted RCPT TO addresses of the transaction in progress
	for {
		line, err := r.ReadString('\n')
		if err != nil {
			return
		}
		cmd := strings.ToUpper(strings.TrimSpace(line))
		switch {
		case strings.HasPrefix(cmd, "EHLO"), strings.HasPrefix(cmd, "HELO"):
			fmt.Fprintf(c, "250 fake\r\n")
		case strings.HasPrefix(cmd, "MAIL"), strings.HasPrefix(cmd, "RCPT"):
			if f.failRcpt != "" && strings.HasPrefix(cmd, "RCPT") && strings.Contains(cmd, strings.ToUpper(f.failRcpt)) {
				f.mu.Lock()
				f.failed++
				f.mu.Unlock()
				fmt.Fprintf(c, "451 mailbox busy, try again later\r\n")
				continue
			}
			if f.stallRcpt != "" && strings.HasPrefix(cmd, "RCPT") && strings.Contains(cmd, strings.ToUpper(f.stallRcpt)) {
				f.stallOnce.Do(func() { close(f.stalled) })
				<-f.release
			}
			if strings.HasPrefix(cmd, "RCPT") {
				envelope = append(envelope, strings.ToLower(strings.Trim(strings.TrimSpace(line[strings.IndexByte(line, ':')+1:]), "<>")))
			}
			fmt.Fprintf(c, "250 ok\r\n")
		case cmd == "DATA":
			fmt.Fprintf(c, "354 go\r\n")
			var sb strings.Builder
			for {
				l, err := r.ReadString('\n')
				if err != nil {
					return
				}
				if l == ".\r\n" {
					break
				}
				sb.WriteString(l)
			}
			f.mu.Lock()
			f.msgs = append(f.msgs, sb.String())
			f.envs = append(f.envs, strings.Join(envelope, ","))
			f.mu.Unlock()
			envelope = nil
			fmt.Fprintf(c, "250 queued\r\n")
		case cmd == "QUIT":
			fmt.Fprintf(c, "221 bye\r\n")
			return
		default:
			fmt.Fprintf(c, "250 ok\r\n")
		}
	}
}

func (f *fakeSMTP) all() string {
	f.mu.Lock()
	defer f.mu.Unlock()
	return strings.Join(f.msgs, "\n=====\n")
}

type c20server struct {
	ab     *authboss.Authboss
	store  *world.Storer
	sess   *world.SessionStore
	srv    *httptest.Server
	logs   *lockedBuf
	mails  *lockedBuf
	smtp   *fakeSMTP
	sms    *c20SMS
	json   bool
	order  []string // global order of storer operations by account (interleaving signature)
	omu    sync.Mutex
	jitter func()
}

func newC20Server(seed int64, useSMTP bool, jitterOn bool, jsonMode bool) (*c20server, error) {
	s := &c20server{logs: &lockedBuf{}, mails: &lockedBuf{}, json: jsonMode}
	var jmu sync.Mutex
	jr := rand.New(rand.NewSource(seed))
	s.jitter = func() {
		if !jitterOn {
			return
		}
		jmu.Lock()
		x := jr.Intn(100)
		jmu.Unlock()
		switch {
		case x < 50:
			runtime.Gosched()
		case x < 70:
			time.Sleep(time.Duration(x) * time.Microsecond)
		}
	}
	s.store = world.NewStandaloneStorer()
	s.store.ProfileKeys = []string{"name"}
	s.store.Hook = func(op, arg string) {
		s.jitter()
		s.omu.Lock()
		s.order = append(s.order, arg)
		s.omu.Unlock()
	}
	s.sess = world.NewStandaloneSessionStore(fmt.Sprint(seed))
	s.sess.Hook = func(string) { s.jitter() }

	ab := authboss.New()
	s.ab = ab
	ab.Config.Paths.Mount = "/auth"
	ab.Config.Paths.RootURL = "http://site.test"
	if c20RootURLEmpty {
		ab.Config.Paths.RootURL = "" // a deployment reachable under several host names
	}
	ab.Config.Modules.OAuth2Providers = map[string]authboss.OAuth2Provider{
		"alpha": {
			OAuth2Config: &xoauth2.Config{ClientID: "cid-alpha", ClientSecret: "s", Scopes: []string{"profile"},
				Endpoint: xoauth2.Endpoint{AuthURL: "https://alpha.idp.test/authorize", TokenURL: "https://alpha.idp.test/token"}},
			FindUserDetails: func(context.Context, xoauth2.Config, *xoauth2.Token) (map[string]string, error) {
				return map[string]string{"uid": "u", "email": "u@alpha.test"}, nil
			},
		},
	}
	ab.Config.Paths.AuthLoginOK = world.PathLoginOK
	ab.Config.Paths.ConfirmOK = world.PathConfirmOK
	ab.Config.Paths.ConfirmNotOK = world.PathConfirmNotOK
	ab.Config.Paths.LockNotOK = world.PathLockNotOK
	ab.Config.Paths.LogoutOK = world.PathLogoutOK
	ab.Config.Paths.RecoverOK = world.PathRecoverOK
	ab.Config.Paths.RegisterOK = world.PathRegisterOK
	ab.Config.Modules.BCryptCost = 4
	ab.Config.Modules.MailNoGoroutine = false // the library's own mail goroutines run
	// every list- or map-valued option is set, to something that is neither empty nor already in a
	// canonical order: whatever the library does with shared configuration per request happens here too
	ab.Config.Modules.RegisterPreserveFields = []string{"name", "email", "zip", "city", "age"}
	ab.Config.Storage.SessionStateWhitelistKeys = []string{"app_theme", "app_lang", "app_cart"}
	ab.Config.Mail.From, ab.Config.Mail.FromName, ab.Config.Mail.SubjectPrefix = "noreply@site.test", "Site", "[site] "
	ab.Config.Modules.RecoverLoginAfterRecovery = false
	ab.Config.Modules.LogoutMethod = "DELETE"
	ab.Config.Modules.TOTP2FAIssuer = "verif"
	ab.Config.Storage.Server = s.store
	ab.Config.Storage.SessionState = s.sess
	ab.Config.Storage.CookieState = &world.CookieStore{}
	ab.Config.Mail.From = "noreply@site.test"
	ab.Config.Core.ViewRenderer = defaults.JSONRenderer{}
	ab.Config.Core.MailRenderer = defaults.JSONRenderer{}
	defaults.SetCore(&ab.Config, false, false)
	logger := defaults.NewLogger(s.logs)
	ab.Config.Core.Logger = logger
	ab.Config.Core.ErrorHandler = defaults.NewErrorHandler(logger)
	br := defaults.NewHTTPBodyReader(jsonMode, false)
	// the application extended the shipped rulesets by appending (the slices now have spare capacity)
	br.Rulesets["register"] = append(br.Rulesets["register"], defaults.Rules{FieldName: "name", MaxLength: 2048})
	br.Rulesets["login"] = append(br.Rulesets["login"], defaults.Rules{FieldName: "email", MaxLength: 2048})
	ab.Config.Core.BodyReader = c20BodyReader{br}
	if jsonMode {
		ab.Config.Modules.MailRouteMethod = "POST"
	}
	if useSMTP {
		f, err := newFakeSMTP(s.jitter)
		if err != nil {
			return nil, err
		}
		s.smtp = f
		ab.Config.Core.Mailer = defaults.NewSMTPMailer(f.ln.Addr().String(), nil)
	} else {
		s.mails.sends = map[uint64]int{}
		ab.Config.Core.Mailer = trackedMailer{inner: defaults.NewLogMailer(s.mails), log: s.mails}
	}
	ab.Config.Core.Localizer = c20Localizer{}
	if err := ab.Init("auth", "confirm", "lock", "logout", "oauth2", "otp", "recover", "register", "remember"); err != nil {
		return nil, err
	}
	if err := (&totp2fa.TOTP{Authboss: ab}).Setup(); err != nil {
		return nil, err
	}
	s.sms = &c20SMS{jit: s.jitter}
	if err := (&sms2fa.SMS{Authboss: ab, Sender: s.sms}).Setup(); err != nil {
		return nil, err
	}
	probe := http.HandlerFunc(func(w http.ResponseWriter, r *http.Request) {
		uid, _ := ab.CurrentUserID(r)
		fmt.Fprintf(w, "probe uid=%s", uid)
	})
	mux := http.NewServeMux()
	mux.Handle("/auth/", http.StripPrefix("/auth", ab.Config.Core.Router))
	mux.Handle("/protected", authboss.Middleware2(ab, authboss.RequireNone, authboss.RespondUnauthorized)(lock.Middleware(ab)(confirm.Middleware(ab)(probe))))
	mux.Handle("/public", probe)
	// one shared instance of the access middleware in redirect mode (hit concurrently by anonymous clients)
	mux.Handle("/gate/", authboss.Middleware2(ab, authboss.RequireNone, authboss.RespondRedirect)(probe))
	h := ab.LoadClientStateMiddleware(remember.Middleware(ab)(authboss.ModuleListMiddleware(ab)(mux)))
	// the site's language negotiation: the visitor's language travels in the request context
	inner := h
	h = http.HandlerFunc(func(w http.ResponseWriter, r *http.Request) {
		inner.ServeHTTP(w, r.WithContext(context.WithValue(r.Context(), c20LangKey{}, r.Header.Get("Accept-Language"))))
	})
	s.srv = httptest.NewServer(h)
	return s, nil
}

// c20SMS is the concurrent instance's SMS gateway: what was sent to which number, under a lock.
type c20SMS struct {
	mu   sync.Mutex
	sent map[string][]string
	jit  func()
}

func (g *c20SMS) Send(ctx context.Context, number, text string) error {
	g.jit()
	g.mu.Lock()
	defer g.mu.Unlock()
	if g.sent == nil {
		g.sent = map[string][]string{}
	}
	g.sent[number] = append(g.sent[number], text)
	return nil
}

func (g *c20SMS) to(number string) []string {
	g.mu.Lock()
	defer g.mu.Unlock()
	return append([]string(nil), g.sent[number]...)
}

type c20LangKey struct{}

// c20Localizer: a catalogue with every key in every language; the translation of a text is the text
// marked with the language of the request it is produced for. No language, no translation.
type c20Localizer struct{}

func (c20Localizer) Localizef(ctx context.Context, key authboss.LocalizationKey, args ...any) string {
	lang, _ := ctx.Value(c20LangKey{}).(string)
	if lang == "" {
		return ""
	}
	return "[" + lang + "] " + fmt.Sprintf(key.Default, args...)
}

type c20BodyReader struct{ inner *defaults.HTTPBodyReader }

func (b c20BodyReader) Read(page string, r *http.Request) (authboss.Validator, error) {
	if page == "otplogin" {
		page = "login"
	}
	return b.inner.Read(page, r)
}

func (s *c20server) close() {
	s.srv.Close()
	if s.smtp != nil {
		s.smtp.ln.Close()
	}
}

func (s *c20server) mailText() string {
	if s.smtp != nil {
		return s.smtp.all()
	}
	return s.mails.String()
}

// ------------------------------------------------------------------------------------------
// a client and its script

type c20client struct {
	id    int
	phone string // the number of this client's SMS-2FA account
	lang  string // the language this client asks for (Accept-Language); the site's catalogue has all of them
	pid   string
	jar   map[string]string
	hc    *http.Client
	base  string
	tr    []string // transcript
	srv   *c20server
	err   string
}

func (c *c20client) do(method, path string, form url.Values) (int, string, http.Header) {
	var body io.Reader
	if form != nil && c.srv.json {
		m := map[string]string{}
		for k, v := range form {
			m[k] = v[0]
		}
		b, _ := json.Marshal(m)
		body = bytes.NewReader(b)
	} else if form != nil {
		body = strings.NewReader(form.Encode())
	}
	req, _ := http.NewRequest(method, c.base+path, body)
	switch {
	case c.srv.json:
		req.Header.Set("Content-Type", "application/json") // API clients send it on every request
	case form != nil:
		req.Header.Set("Content-Type", "application/x-www-form-urlencoded")
	}
	if c.lang != "" {
		req.Header.Set("Accept-Language", c.lang)
	}
	var ks []string
	for k := range c.jar {
		ks = append(ks, k)
	}
	sort.Strings(ks)
	for _, k := range ks {
		req.AddCookie(&http.Cookie{Name: k, Value: c.jar[k]})
	}
	resp, err := c.hc.Do(req)
	if err != nil {
		c.err = err.Error()
		return 0, "", nil
	}
	b, _ := io.ReadAll(resp.Body)
	resp.Body.Close()
	for _, ck := range resp.Cookies() {
		if ck.MaxAge < 0 {
			delete(c.jar, ck.Name)
		} else {
			c.jar[ck.Name] = ck.Value
		}
	}
	return resp.StatusCode, string(b), resp.Header
}

// unlang canonicalises the marker of the client's OWN language (every other language's marker stays).
func (c *c20client) unlang(row string) string {
	if c.phone != "" {
		row = strings.ReplaceAll(row, c.phone, "<phone>")
	}
	if c.lang == "" {
		return row
	}
	return strings.ReplaceAll(row, "["+c.lang+"] ", "[L] ")
}

func (c *c20client) step(name, method, path string, form url.Values) (int, string) {
	st, body, h := c.do(method, path, form)
	sess, _ := json.Marshal(c.srv.sess.BySid(c.jar[world.SidCookie]))
	var jk []string
	for k := range c.jar {
		jk = append(jk, k)
	}
	sort.Strings(jk)
	row := ""
	if u := c.srv.store.Peek(c.pid); u != nil {
		f := u.Fields()
		var fk []string
		for k := range f {
			fk = append(fk, k)
		}
		sort.Strings(fk)
		for _, k := range fk {
			if k == "LastAttempt" || k == "RecoverExpiry" {
				continue
			}
			row += k + "=" + f[k] + ";"
		}
	}
	loc, ct := "", ""
	if h != nil {
		loc, ct = h.Get("Location"), h.Get("Content-Type")
	}
	c.tr = append(c.tr, c.unlang(fmt.Sprintf("%s: %d loc=%s ct=%s body=%s | session=%s | jar=%v | tokens=%d | row=%s", name, st, loc, ct, body, sess, jk, len(c.srv.store.Tokens(c.pid)), row)))
	return st, body
}

// qrMatches reports whether body is a PNG whose pixels equal the QR code of the otpauth URL the
// library builds for (email, secret) — rendered independently with the same barcode library.
func qrMatches(body, email, secret string) bool {
	if secret == "" {
		return false
	}
	got, err := png.Decode(strings.NewReader(body))
	if err != nil {
		return false
	}
	key, err := otp.NewKeyFromURL(fmt.Sprintf("otpauth://totp/%s:%s?issuer=%s&secret=%s", url.PathEscape("verif"), url.PathEscape(email), url.QueryEscape("verif"), url.QueryEscape(secret)))
	if err != nil {
		return false
	}
	want, err := key.Image(200, 200)
	if err != nil || got.Bounds() != want.Bounds() {
		return false
	}
	b := want.Bounds()
	for y := b.Min.Y; y < b.Max.Y; y++ {
		for x := b.Min.X; x < b.Max.X; x++ {
			r1, g1, b1, _ := got.At(x, y).RGBA()
			r2, g2, b2, _ := want.At(x, y).RGBA()
			if r1 != r2 || g1 != g2 || b1 != b2 {
				return false
			}
		}
	}
	return true
}

var reMailURL = regexp.MustCompile(`http://site\.test/auth/(confirm\?cnf|recover/end\?token)=([A-Za-z0-9_%=-]+)`)

var reMailSubject = regexp.MustCompile(`(?m)^Subject: (.*)$`)

// waitMail polls the outbox for a mail to this client carrying a link of the wanted kind.
func (c *c20client) waitMail(kind string, skip int) string {
	deadline := time.Now().Add(20 * time.Second)
	for time.Now().Before(deadline) {
		text := c.srv.mailText()
		// split per message on the To: header
		n := 0
		for _, msg := range strings.Split(text, "To: ") {
			if !strings.HasPrefix(msg, c.pid) {
				continue
			}
			msg = strings.ReplaceAll(strings.ReplaceAll(msg, "=\r\n", ""), "\\u0026", "&")
			for _, m := range reMailURL.FindAllStringSubmatch(msg, -1) {
				if strings.HasPrefix(m[1], kind) {
					if n >= skip {
						tok, _ := url.QueryUnescape(m[2])
						if sm := reMailSubject.FindStringSubmatch(msg); sm != nil {
							c.tr = append(c.tr, c.unlang("mail-"+kind+": subject="+strings.TrimSpace(sm[1])))
						}
						return tok
					}
					n++
					break
				}
			}
		}
		time.Sleep(2 * time.Millisecond)
	}
	c.err = "no " + kind + " mail arrived within the watchdog"
	return ""
}

func (c *c20client) run() {
	pw, pw2 := "Valid1!pass"+fmt.Sprint(c.id), "Other2!pass"+fmt.Sprint(c.id)
	c.step("register", "POST", "/auth/register", url.Values{"email": {c.pid}, "password": {pw}, "confirm_password": {pw}})
	c.step("login-unconfirmed", "POST", "/auth/login", url.Values{"email": {c.pid}, "password": {pw}})
	tok := c.waitMail("confirm", 0)
	if c.srv.json {
		c.step("confirm", "POST", "/auth/confirm", url.Values{"cnf": {tok}})
	} else {
		c.step("confirm", "GET", "/auth/confirm?cnf="+url.QueryEscape(tok), nil)
	}
	c.step("login-wrong", "POST", "/auth/login", url.Values{"email": {c.pid}, "password": {"wrong"}})
	c.step("login", "POST", "/auth/login", url.Values{"email": {c.pid}, "password": {pw}, "rm": {"true"}})
	c.step("protected", "GET", "/protected", nil)
	// start a TOTP enrolment and fetch the QR code a few times: the image must encode THIS
	// session's secret however many other clients are fetching theirs
	c.step("totp-setup", "POST", "/auth/2fa/totp/setup", nil)
	for i := 0; i < 4; i++ {
		st, png, h := c.do("GET", "/auth/2fa/totp/qr", nil)
		ct := ""
		if h != nil {
			ct = h.Get("Content-Type")
		}
		secret := c.srv.sess.BySid(c.jar[world.SidCookie])["totp_secret"]
		c.tr = append(c.tr, fmt.Sprintf("totp-qr: %d ct=%s image-encodes-own-secret=%v", st, ct, qrMatches(png, c.pid, secret)))
	}
	_, body := c.step("otp-add", "POST", "/auth/otp/add", nil)
	var m map[string]interface{}
	json.Unmarshal([]byte(body), &m)
	otp, _ := m["otp"].(string)
	c.step("logout", "DELETE", "/auth/logout", nil)
	c.step("otp-login", "POST", "/auth/otp/login", url.Values{"email": {c.pid}, "password": {otp}})
	c.step("otp-replay", "POST", "/auth/otp/login", url.Values{"email": {c.pid}, "password": {otp}})
	c.step("logout2", "DELETE", "/auth/logout", nil)
	c.step("recover-start", "POST", "/auth/recover", url.Values{"email": {c.pid}})
	rtok := c.waitMail("recover", 0)
	c.step("recover-end", "POST", "/auth/recover/end", url.Values{"token": {rtok}, "password": {pw2}, "confirm_password": {pw2}})
	c.step("login-old", "POST", "/auth/login", url.Values{"email": {c.pid}, "password": {pw}})
	c.step("login-new", "POST", "/auth/login", url.Values{"email": {c.pid}, "password": {pw2}, "rm": {"true"}})
	delete(c.jar, world.SidCookie) // the browser comes back later with only the remember cookie
	c.step("remember-reauth", "GET", "/public", nil)
	c.step("protected-halfauth", "GET", "/protected", nil)
	c.step("logout3", "DELETE", "/auth/logout", nil)
	c.step("after-logout", "GET", "/protected", nil)
	// the client's second account has SMS as its second factor: password step (one text to its own phone,
	// nobody else's), code step
	smsPid, phone := "sms-"+c.pid, fmt.Sprintf("+1555%04d", c.id)
	c.phone = phone
	c.srv.store.Put(&world.User{PID: smsPid, Email: smsPid, Password: sim.Hash4(pw), Confirmed: true, SMSPhone: phone})
	c.step("sms-login", "POST", "/auth/login", url.Values{"email": {smsPid}, "password": {pw}})
	texts := c.srv.sms.to(phone)
	c.tr = append(c.tr, fmt.Sprintf("sms-outbox: %d text(s) to this client's phone", len(texts)))
	code := "000000"
	if len(texts) > 0 {
		code = texts[len(texts)-1]
	}
	c.step("sms-validate", "POST", "/auth/2fa/sms/validate", url.Values{"code": {code}})
	c.step("sms-protected", "GET", "/protected", nil)
	c.step("logout4", "DELETE", "/auth/logout", nil)
}

var (
	reB64     = regexp.MustCompile(`[A-Za-z0-9_\-+/%]{40,}={0,2}`)
	reHash    = regexp.MustCompile(`\$2a\$04\$[A-Za-z0-9./]{53}`)
	reOTP     = regexp.MustCompile(`[0-9a-f]{8}-[0-9a-f]{8}-[0-9a-f]{8}-[0-9a-f]{8}`)
	reTS      = regexp.MustCompile(`\d{4}-\d\d-\d\dT\d\d:\d\d:\d\d(\.\d+)?Z`)
	reSMSSess = regexp.MustCompile(`"(sms_secret|sms_last)":"\d+"`)
	reSid     = regexp.MustCompile(`S\d+-\d+`)
	rePwNum   = regexp.MustCompile(`pass\d+`)
	reB32     = regexp.MustCompile(`\b[A-Z2-7]{32}\b`)
)

// canon makes a transcript comparable across clients and runs: the client's identifier, random
// tokens (by first-occurrence index), hashes, timestamps and session ids are replaced.
func canon(tr []string, pid string) []string {
	idx := map[string]int{}
	out := make([]string, len(tr))
	for i, l := range tr {
		l = strings.ReplaceAll(l, pid, "<pid>")
		l = strings.ReplaceAll(l, url.QueryEscape(pid), "<pid>")
		l = reHash.ReplaceAllString(l, "<hash>")
		l = reOTP.ReplaceAllString(l, "<otp>")
		l = reTS.ReplaceAllString(l, "<ts>")
		l = reSMSSess.ReplaceAllString(l, `"$1":"<n>"`)
		l = reSid.ReplaceAllString(l, "<sid>")
		l = reB32.ReplaceAllString(l, "<totp-secret>")
		l = reB64.ReplaceAllStringFunc(l, func(t string) string {
			if _, ok := idx[t]; !ok {
				idx[t] = len(idx)
			}
			return fmt.Sprintf("<tok%d>", idx[t])
		})
		out[i] = l
	}
	return out
}

func c20RunClients(seed int64, n int, useSMTP, jitter, jsonMode bool) (*c20server, []*c20client, error) {
	srv, err := newC20Server(seed, useSMTP, jitter, jsonMode)
	if err != nil {
		return nil, nil, err
	}
	var cs []*c20client
	var wg sync.WaitGroup
	for i := 0; i < n; i++ {
		c := &c20client{id: i, lang: []string{"fr", "de", "nl"}[i%3], pid: fmt.Sprintf("client%d@site%d.test", i, i), jar: map[string]string{}, base: srv.srv.URL, srv: srv,
			hc: &http.Client{CheckRedirect: func(*http.Request, []*http.Request) error { return http.ErrUseLastResponse }, Timeout: 30 * time.Second}}
		cs = append(cs, c)
		wg.Add(1)
		go func() { defer wg.Done(); c.run() }()
	}
	wg.Wait()
	return srv, cs, nil
}

// gateBurst: G anonymous clients x M requests refused concurrently by ONE redirect-mode access
// middleware on a real server; returns the first request that was sent to somebody else's target.
func gateBurst(seed int64, jsonMode bool, G, M int) (string, int, error) {
	srv2, err := newC20Server(seed, false, true, jsonMode)
	if err != nil {
		return "", 0, err
	}
	defer srv2.close()
	var gw sync.WaitGroup
	wrong := make(chan string, G)
	for g := 0; g < G; g++ {
		gw.Add(1)
		go func(g int) {
			defer gw.Done()
			hc := &http.Client{CheckRedirect: func(*http.Request, []*http.Request) error { return http.ErrUseLastResponse }, Timeout: 30 * time.Second}
			for i := 0; i < M; i++ {
				target := fmt.Sprintf("/gate/g%d/i%d?who=g%d&n=%d", g, i, g, i)
				req, _ := http.NewRequest("GET", srv2.srv.URL+target, nil)
				if jsonMode {
					req.Header.Set("Content-Type", "application/json")
				}
				resp, err := hc.Do(req)
				if err != nil {
					continue
				}
				body, _ := io.ReadAll(resp.Body)
				resp.Body.Close()
				loc := resp.Header.Get("Location")
				if loc == "" {
					var m map[string]interface{}
					if json.Unmarshal(body, &m) == nil {
						loc, _ = m["location"].(string)
					}
				}
				u, perr := url.Parse(loc)
				if perr != nil || u.Query().Get("redir") != target {
					select {
					case wrong <- fmt.Sprintf("request %s was sent to %q", target, loc):
					default:
					}
				}
			}
		}(g)
	}
	gw.Wait()
	close(wrong)
	for msg := range wrong {
		return msg, G * M, nil
	}
	return "", G * M, nil
}

// c20RootURLEmpty makes the next newC20Server configure Paths.RootURL = "" (set before the call).
var c20RootURLEmpty bool

// oauthStartBurst: G visitors, each arriving under a host name of its own, start an OAuth2 login M
// times at once. Where the provider is told to send each of them back to (redirect_uri) is what the
// same visitor is told when nobody else is around.
func oauthStartBurst(seed int64, G, M int) (string, int, error) {
	c20RootURLEmpty = true
	srv, err := newC20Server(seed, false, true, false)
	c20RootURLEmpty = false
	if err != nil {
		return "", 0, err
	}
	defer srv.close()
	start := func(hc *http.Client, host string) (string, error) {
		req, _ := http.NewRequest("GET", srv.srv.URL+"/auth/oauth2/alpha", nil)
		req.Host = host
		resp, err := hc.Do(req)
		if err != nil {
			return "", err
		}
		io.Copy(io.Discard, resp.Body)
		resp.Body.Close()
		u, err := url.Parse(resp.Header.Get("Location"))
		if err != nil {
			return "", err
		}
		return u.Query().Get("redirect_uri"), nil
	}
	solo := make([]string, G)
	hc0 := &http.Client{CheckRedirect: func(*http.Request, []*http.Request) error { return http.ErrUseLastResponse }, Timeout: 30 * time.Second}
	for g := 0; g < G; g++ {
		if solo[g], err = start(hc0, fmt.Sprintf("tenant%d.site.test", g)); err != nil {
			return "", 0, err
		}
	}
	var wg sync.WaitGroup
	wrong := make(chan string, G)
	for g := 0; g < G; g++ {
		wg.Add(1)
		go func(g int) {
			defer wg.Done()
			hc := &http.Client{CheckRedirect: func(*http.Request, []*http.Request) error { return http.ErrUseLastResponse }, Timeout: 30 * time.Second}
			host := fmt.Sprintf("tenant%d.site.test", g)
			for i := 0; i < M; i++ {
				got, err := start(hc, host)
				if err == nil && got != solo[g] {
					select {
					case wrong <- fmt.Sprintf("a visitor of %s was given redirect_uri %q; alone it is given %q", host, got, solo[g]):
					default:
					}
					return
				}
			}
		}(g)
	}
	wg.Wait()
	close(wrong)
	for msg := range wrong {
		return msg, G * M, nil
	}
	return "", G * M, nil
}

// rotationBurst: G browsers, each holding only the remember cookie of its own account, hit the site M
// times each at once; every request is re-authenticated by the middleware and handed a fresh cookie.
// Every cookie ever handed out names its own account and carries a nonce nobody else was given.
func rotationBurst(seed int64, G, M int) (string, int, error) {
	srv, err := newC20Server(seed, false, true, false)
	if err != nil {
		return "", 0, err
	}
	defer srv.close()
	type issued struct{ pid, val string }
	var mu sync.Mutex
	var all []issued
	var problems []string
	note := func(p string) {
		mu.Lock()
		if len(problems) < 3 {
			problems = append(problems, p)
		}
		mu.Unlock()
	}
	var wg sync.WaitGroup
	for g := 0; g < G; g++ {
		pid := fmt.Sprintf("rot%d@site%d.test", g, g)
		srv.store.Put(&world.User{PID: pid, Email: pid, Password: sim.Hash4("Rotat1on!pw"), Confirmed: true})
		wg.Add(1)
		go func(g int, pid string) {
			defer wg.Done()
			hc := &http.Client{CheckRedirect: func(*http.Request, []*http.Request) error { return http.ErrUseLastResponse }, Timeout: 30 * time.Second}
			rm := ""
			req, _ := http.NewRequest("POST", srv.srv.URL+"/auth/login", strings.NewReader(url.Values{"email": {pid}, "password": {"Rotat1on!pw"}, "rm": {"true"}}.Encode()))
			req.Header.Set("Content-Type", "application/x-www-form-urlencoded")
			if resp, err := hc.Do(req); err == nil {
				for _, ck := range resp.Cookies() {
					if ck.Name == "rm" {
						rm = ck.Value
					}
				}
				io.Copy(io.Discard, resp.Body)
				resp.Body.Close()
			}
			if rm == "" {
				note(fmt.Sprintf("%s: login with rm=true set no remember cookie", pid))
				return
			}
			mu.Lock()
			all = append(all, issued{pid, rm})
			mu.Unlock()
			for i := 0; i < M; i++ {
				req, _ := http.NewRequest("GET", srv.srv.URL+"/public", nil)
				req.AddCookie(&http.Cookie{Name: "rm", Value: rm}) // no session cookie: the browser was restarted
				resp, err := hc.Do(req)
				if err != nil {
					note(pid + ": " + err.Error())
					return
				}
				body, _ := io.ReadAll(resp.Body)
				resp.Body.Close()
				next := ""
				for _, ck := range resp.Cookies() {
					if ck.Name == "rm" && ck.Value != "" {
						next = ck.Value
					}
				}
				if !strings.Contains(string(body), "uid="+pid) || next == "" || next == rm {
					note(fmt.Sprintf("%s: request %d with its live remember cookie was answered %q with cookie %q", pid, i, trunc(string(body), 60), trunc(next, 20)))
					return
				}
				rm = next
				mu.Lock()
				all = append(all, issued{pid, rm})
				mu.Unlock()
			}
		}(g, pid)
	}
	wg.Wait()
	if len(problems) > 0 {
		return "rotation under concurrency: " + strings.Join(problems, "; "), len(all), nil
	}
	seen := map[string]string{}
	for _, is := range all {
		b, err := base64.StdEncoding.DecodeString(is.val)
		if err != nil {
			if un, e2 := url.QueryUnescape(is.val); e2 == nil {
				b, err = base64.StdEncoding.DecodeString(un)
			}
		}
		if err != nil {
			b, err = base64.URLEncoding.DecodeString(is.val)
		}
		if err != nil || len(b) < 34 {
			return fmt.Sprintf("cookie %q of %s does not decode", trunc(is.val, 20), is.pid), len(all), nil
		}
		if string(b[:len(b)-33]) != is.pid {
			return fmt.Sprintf("a cookie handed to %s names %q", is.pid, string(b[:len(b)-33])), len(all), nil
		}
		nonce := string(b[len(b)-32:])
		if other, dup := seen[nonce]; dup {
			return fmt.Sprintf("the same 32-byte remember nonce was handed out twice (to %s and to %s)", other, is.pid), len(all), nil
		}
		seen[nonce] = is.pid
	}
	return "", len(all), nil
}

// smtpStallProbe: "one client's slow mail is not another client's problem". The relay holds the dialogue of
// the mail to account A; while it is held, client B asks for a recovery mail. Either B's mail reaches the
// relay (held), or — sampled from the goroutine dump, several times in a row — B's sender sits in
// sync.(*Mutex).Lock below defaults.SMTPMailer.Send while A's sits in net/smtp below the same function: B is
// waiting for a lock that A holds across its network dialogue (violated). Anything else is inconclusive.
func smtpStallProbe(seed int64) (verdict string, detail string) {
	srv, err := newC20Server(seed, true, false, false)
	if err != nil {
		return "inconclusive", err.Error()
	}
	defer srv.close()
	slow, fast := "slow@site.test", "fast@site.test"
	for _, p := range []string{slow, fast} {
		srv.store.Put(&world.User{PID: p, Email: p, Password: sim.Hash4("St4ll!passw"), Confirmed: true})
	}
	srv.smtp.stallRcpt, srv.smtp.stalled, srv.smtp.release = slow, make(chan struct{}), make(chan struct{})
	defer close(srv.smtp.release)
	post := func(pid string) {
		hc := &http.Client{CheckRedirect: func(*http.Request, []*http.Request) error { return http.ErrUseLastResponse }, Timeout: 30 * time.Second}
		req, _ := http.NewRequest("POST", srv.srv.URL+"/auth/recover", strings.NewReader(url.Values{"email": {pid}}.Encode()))
		req.Header.Set("Content-Type", "application/x-www-form-urlencoded")
		if resp, err := hc.Do(req); err == nil {
			io.Copy(io.Discard, resp.Body)
			resp.Body.Close()
		}
	}
	post(slow)
	select {
	case <-srv.smtp.stalled:
	case <-time.After(20 * time.Second):
		return "inconclusive", "the relay never saw the mail it was to hold"
	}
	post(fast)
	blockedInARow := 0
	buf := make([]byte, 1<<20)
	for i := 0; i < 400; i++ {
		if strings.Contains(srv.smtp.all(), "To: "+fast) {
			return "held", ""
		}
		dump := string(buf[:runtime.Stack(buf, true)])
		waiting, talking := false, false
		for _, g := range strings.Split(dump, "\n\n") {
			if !strings.Contains(g, "defaults.SMTPMailer.Send") && !strings.Contains(g, "defaults.(*SMTPMailer).Send") {
				continue
			}
			if strings.Contains(g, "sync.(*Mutex).Lock") {
				waiting = true
			} else if strings.Contains(g, "net/smtp.") {
				talking = true
			}
		}
		if waiting && talking {
			if blockedInARow++; blockedInARow >= 25 {
				return "violated", "25 consecutive goroutine dumps (10 ms apart) show one mail sender in sync.(*Mutex).Lock below defaults.SMTPMailer.Send while another sits in net/smtp below the same function, and the second client's mail has not reached the relay"
			}
		} else {
			blockedInARow = 0
		}
		time.Sleep(10 * time.Millisecond)
	}
	return "inconclusive", "the second client's mail neither arrived nor was its sender found waiting for a lock"
}

// blankRecipientProbe: an account without an e-mail address (a username site; the address is a profile
// field that may be empty) asks for a recovery mail on the concurrent instance, whose mail goroutines run.
// Whatever the library makes of it, the process — everybody else's server — survives; the other client's
// request issued right afterwards is answered. (A crash is detected by the parent from the worker's output.)
func blankRecipientProbe(seed int64) (string, string) {
	srv, err := newC20Server(seed, false, false, false)
	if err != nil {
		return "inconclusive", err.Error()
	}
	defer srv.close()
	srv.store.Put(&world.User{PID: "nomail@site.test", Email: "", Password: sim.Hash4("N0mail!passw"), Confirmed: true})
	srv.store.Put(&world.User{PID: "mail@site.test", Email: "mail@site.test", Password: sim.Hash4("N0mail!passw"), Confirmed: true})
	post := func(pid string) int {
		hc := &http.Client{CheckRedirect: func(*http.Request, []*http.Request) error { return http.ErrUseLastResponse }, Timeout: 30 * time.Second}
		req, _ := http.NewRequest("POST", srv.srv.URL+"/auth/recover", strings.NewReader(url.Values{"email": {pid}}.Encode()))
		req.Header.Set("Content-Type", "application/x-www-form-urlencoded")
		resp, err := hc.Do(req)
		if err != nil {
			return 0
		}
		io.Copy(io.Discard, resp.Body)
		resp.Body.Close()
		return resp.StatusCode
	}
	for i := 0; i < 3; i++ {
		post("nomail@site.test")
		time.Sleep(30 * time.Millisecond) // the mail goroutine of that request gets to run
		if st := post("mail@site.test"); st == 0 {
			return "inconclusive", "the server stopped answering after a recovery request of an account without an address"
		}
	}
	return "held", ""
}

func c20Unit(c *RunCtx, unit int) {
	if unit%6 == 3 {
		if v, d := blankRecipientProbe(c.Seed*1000 + int64(unit)); v == "held" {
			c.Stats.Count("blank-recipient-probes-held")
		} else {
			c.Stats.Inconclusive = append(c.Stats.Inconclusive, "blank recipient probe: "+d)
			return
		}
	}
	if unit%6 == 1 {
		switch v, d := smtpStallProbe(c.Seed*1000 + int64(unit)); v {
		case "violated":
			c.Stats.Violations = append(c.Stats.Violations, sim.VioRec{Violation: *vio("C20", "mail-sender-waits-for-another-clients-smtp-dialogue", "%s", d), Index: unit})
			return
		case "held":
			c.Stats.Count("smtp-stall-probes-held")
		default:
			c.Stats.Inconclusive = append(c.Stats.Inconclusive, "smtp stall probe: "+d)
			return
		}
	}
	r := Rng(c.Seed, "C20", unit)
	useSMTP := unit%2 == 1
	jsonMode := (unit/2)%2 == 1
	n := []int{4, 16, 48}[unit%3]
	if c.Tier == "quick" && n > 16 {
		n = 16
	}
	c.Stats.Histories++
	// solo reference: the same script alone against a fresh instance
	solo, scs, err := c20RunClients(r.Int63(), 1, useSMTP, false, jsonMode)
	if err != nil {
		c.Stats.Inconclusive = append(c.Stats.Inconclusive, "server: "+err.Error())
		return
	}
	solo.close()
	if scs[0].err != "" {
		c.Stats.Inconclusive = append(c.Stats.Inconclusive, "solo run: "+scs[0].err)
		return
	}
	ref := canon(scs[0].tr, scs[0].pid)
	if !strings.Contains(strings.Join(ref, "\n"), "remember-reauth: 200") || !strings.Contains(strings.Join(ref, "\n"), "probe uid=<pid>") {
		c.Stats.Inconclusive = append(c.Stats.Inconclusive, "solo script did not reach the states it is meant to reach: "+strings.Join(ref, " || "))
		return
	}
	soloErrs := errorLogShapes(solo.logs.String())
	srv, cs, err := c20RunClients(r.Int63(), n, useSMTP, true, jsonMode)
	if err != nil {
		c.Stats.Inconclusive = append(c.Stats.Inconclusive, "server: "+err.Error())
		return
	}
	time.Sleep(20 * time.Millisecond) // let trailing mail goroutines finish under the race detector
	srv.close()
	// the library's own error log: whatever it reports as failed under concurrency it also reported when
	// the script ran alone (the mailers, stores and renderers of this harness never fail by themselves)
	for shape, line := range errorLogShapes(srv.logs.String()) {
		if _, ok := soloErrs[shape]; !ok {
			v := vio("C20", "library-reported-a-failure-only-under-concurrency|"+shape, "with %d concurrent clients the library logged an error it does not log when the same script runs alone: %s", n, trunc(line, 300))
			c.Stats.Violations = append(c.Stats.Violations, sim.VioRec{Violation: *v, Index: unit})
			return
		}
	}
	// interleaving signature: hash of the global order of storer operations by account
	h := fnv.New64a()
	srv.omu.Lock()
	switches := 0
	for i, a := range srv.order {
		io.WriteString(h, a+"|")
		if i > 0 && a != srv.order[i-1] {
			switches++
		}
	}
	nOps := len(srv.order)
	srv.omu.Unlock()
	c.Stats.Sig(fmt.Sprintf("interleaving/%x", h.Sum64()))
	c.Stats.Count("units:" + map[bool]string{false: "form", true: "json"}[jsonMode] + "+" + map[bool]string{false: "logmailer", true: "smtpmailer"}[useSMTP])
	c.Stats.Add("storer-ops", nOps)
	c.Stats.Add("account-switches-in-global-order", switches)
	c.Stats.Add("client-scripts", n)
	if !useSMTP {
		// the mail log of the shipped LogMailer: the bytes of one message are contiguous, whoever else
		// is sending at the same time
		mixed, writes := srv.mails.interleaved()
		c.Stats.Add("mail-log-writes", writes)
		if mixed {
			v := vio("C20", "mail-log-messages-interleaved", "with %d concurrent clients the writes of two Mailer.Send calls are interleaved in the LogMailer's output: one user's message (and link) is mixed into another's", n)
			c.Stats.Violations = append(c.Stats.Violations, sim.VioRec{Violation: *v, Index: unit})
			return
		}
	}
	for _, cl := range cs {
		c.Stats.Evaluations += len(cl.tr)
		if cl.err != "" {
			c.Stats.Inconclusive = append(c.Stats.Inconclusive, fmt.Sprintf("client %d: %s", cl.id, cl.err))
			return
		}
		got := canon(cl.tr, cl.pid)
		for i := range ref {
			if i >= len(got) || got[i] != ref[i] {
				g := "<missing>"
				if i < len(got) {
					g = got[i]
				}
				v := vio("C20", "transcript-differs-from-solo-run|"+strings.SplitN(ref[i], ":", 2)[0], "client %d of %d concurrent clients observed at step %d something it would not have observed alone:\n  concurrent: %s\n  alone:      %s", cl.id, n, i, trunc(g, 700), trunc(ref[i], 700))
				c.Stats.Violations = append(c.Stats.Violations, sim.VioRec{Violation: *v, Index: unit, History: got})
				return
			}
		}
	}
	// anonymous clients refused concurrently by ONE instance of the access middleware: every one of
	// them must be sent to the login page with ITS OWN path and query as the return target
	if msg, n, err := gateBurst(r.Int63(), jsonMode, 8, 120); err != nil {
		c.Stats.Inconclusive = append(c.Stats.Inconclusive, "server: "+err.Error())
		return
	} else {
		c.Stats.Add("concurrent-refusals", n)
		c.Stats.Evaluations += n
		if msg != "" {
			v := vio("C20", "refusal-carries-another-clients-target", "%s", msg)
			c.Stats.Violations = append(c.Stats.Violations, sim.VioRec{Violation: *v, Index: unit})
			return
		}
	}
	// OAuth2 starts by visitors of different host names at once (RootURL empty)
	if msg, n, err := oauthStartBurst(r.Int63(), 8, tierN(c.Tier, 40, 300)); err != nil {
		c.Stats.Inconclusive = append(c.Stats.Inconclusive, "server: "+err.Error())
		return
	} else {
		c.Stats.Add("concurrent-oauth2-starts", n)
		c.Stats.Evaluations += n
		if msg != "" {
			v := vio("C20", "oauth2-start-under-concurrency", "%s", msg)
			c.Stats.Violations = append(c.Stats.Violations, sim.VioRec{Violation: *v, Index: unit})
			return
		}
	}
	// remember cookies minted in parallel: rotation after rotation by 8 cookie-only browsers at once
	if msg, n, err := rotationBurst(r.Int63(), 8, tierN(c.Tier, 60, 400)); err != nil {
		c.Stats.Inconclusive = append(c.Stats.Inconclusive, "server: "+err.Error())
		return
	} else {
		c.Stats.Add("remember-cookies-minted-concurrently", n)
		c.Stats.Evaluations += n
		if msg != "" {
			v := vio("C20", "remember-cookie-minting-under-concurrency", "%s", msg)
			c.Stats.Violations = append(c.Stats.Violations, sim.VioRec{Violation: *v, Index: unit})
			return
		}
	}
	// the token mint itself, hammered from 16 goroutines with nothing else to synchronise them: every
	// nonce unique, every token naming the pid it was minted for (and the race detector watching)
	if msg, n := mintBurst(16, 3000); msg != "" {
		v := vio("C20", "remember-token-mint-under-concurrency", "%s", msg)
		c.Stats.Violations = append(c.Stats.Violations, sim.VioRec{Violation: *v, Index: unit})
		return
	} else {
		c.Stats.Add("remember-tokens-minted-in-parallel", n)
	}
	// the one-time-token generator shared by confirm and recover, likewise
	if msg, n := tokenBurst(16, 2000); msg != "" {
		v := vio("C20", "one-time-token-generator-under-concurrency", "%s", msg)
		c.Stats.Violations = append(c.Stats.Violations, sim.VioRec{Violation: *v, Index: unit})
		return
	} else {
		c.Stats.Add("one-time-tokens-generated-in-parallel", n)
	}
	// C11's handler programs, concurrently, under the race detector
	var wg sync.WaitGroup
	bad := make(chan string, 64)
	for g := 0; g < 8; g++ {
		wg.Add(1)
		gr := rand.New(rand.NewSource(r.Int63()))
		go func() {
			defer wg.Done()
			for i := 0; i < 150; i++ {
				prog := c11gen(gr)
				l, gets, pan := c11run(prog, c11state{"uid": "u"}, c11state{"rm": "c"}, false, false, false)
				if sig, msg := c11check(prog, l, gets, c11state{"uid": "u"}, c11state{"rm": "c"}, pan, false, false); sig != "" {
					select {
					case bad <- sig + ": " + msg:
					default:
					}
				}
			}
		}()
	}
	wg.Wait()
	close(bad)
	for m := range bad {
		v := vio("C20", "concurrent-client-state-program-misdelivered", "%s", m)
		c.Stats.Violations = append(c.Stats.Violations, sim.VioRec{Violation: *v, Index: unit})
		return
	}
	c.Stats.Add("concurrent-client-state-programs", 8*150)
	if unit == 0 {
		c.Stats.Sample(map[string]interface{}{"clients": n, "mailer": map[bool]string{false: "defaults.LogMailer", true: "defaults.SMTPMailer → loopback fake SMTP"}[useSMTP], "canonical_transcript": ref})
	}
}

// c20RaceReports parses the race detector logs of the workers. A report counts against the
// property only if some frame is in library code.
func C20RaceReports(scratch string) (lib []string, harnessOnly int, total int) {
	files, _ := filepath.Glob(filepath.Join(scratch, "race.log.*"))
	seen := map[string]bool{}
	frame := regexp.MustCompile(`^\s+([A-Za-z0-9_./\-]+(?:\.\([^)]*\))?\.[A-Za-z0-9_.]+(?:\.func\d+)?)\(`)
	for _, f := range files {
		b, err := os.ReadFile(f)
		if err != nil {
			continue
		}
		for _, blk := range strings.Split(string(b), "WARNING: DATA RACE")[1:] {
			total++
			var libFrames []string
			for _, line := range strings.Split(blk, "\n") {
				if m := frame.FindStringSubmatch(line); m != nil && strings.Contains(m[1], "github.com/volatiletech/authboss/v3") {
					libFrames = append(libFrames, m[1])
				}
			}
			if len(libFrames) == 0 {
				harnessOnly++
				continue
			}
			// dedupe by the pair of innermost library frames (line numbers are not part of the key)
			key := libFrames[0]
			for _, fr := range libFrames[1:] {
				if fr != key {
					key += " <-> " + fr
					break
				}
			}
			if !seen[key] {
				seen[key] = true
				lib = append(lib, key)
			}
		}
	}
	sort.Strings(lib)
	return lib, harnessOnly, total
}

func init() {
	register(&Check{
		ID: "C20", Level: "exploration",
		Rule:  "-race build. One initialised instance behind a real net/http server on loopback, shipped defaults everywhere (router, body reader, responder, redirector, error handler, defaults.Logger on a locked writer, defaults.LogMailer on a locked writer in even units and defaults.SMTPMailer talking to an in-process fake SMTP server in odd units), MailNoGoroutine=false so the library's own mail goroutines run. A Localizer that translates every text into the language the request asks for (Accept-Language → request context; three languages spread over the clients; the marker of a client's own language is canonicalised, any other language's marker is a difference); the subject of every mail a client waits for is part of its transcript. 4/16/48 clients, each with its own account and cookie jar, run the script register → login-unconfirmed → confirm (token read from the mail) → wrong login → login(rm) → protected → TOTP setup + 4x QR image (pixels must encode this session's own secret) → otp add → logout → otp login → otp replay → logout → recover start → recover end (token from the mail) → old password → new password(rm) → remember re-auth → protected → logout → protected, concurrently (form mode in half of the units, JSON/API mode — JSON bodies in, JSON 'redirects' out — in the other half), with seeded yields/µs-sleeps injected at every storer and session-store operation and at SMTP accept. Oracles: (1) zero race-detector reports with a frame in github.com/volatiletech/authboss/v3 (GORACE halt_on_error=0 log_path, blocks counted from the logs, deduplicated by the innermost library frame pair); a report without a library frame makes the run inconclusive; (2) every client's transcript (status, Location, content type, body, its server-side session, jar keys, its token-row count, its own storage row after every step; identifiers/tokens/hashes/timestamps canonicalised) equals the transcript of the same script run alone against a fresh instance; (3) 8 anonymous clients x 120 requests refused concurrently by ONE redirect-mode access middleware must each be sent to the login page with their own path and query; (4) the C11 handler programs run in 8 goroutines concurrently; (5) 8 cookie-only browsers rotate their remember cookies 60 (thorough: 400) times each at once: every cookie names its own account, every nonce is handed out once; (6) the library logs no error under concurrency that it does not log when the script runs alone; (7) in the LogMailer's output the writes of each Mailer.Send call are contiguous (two users' messages never mix); (8) SMTP stall probe (every 6th unit): the relay holds the dialogue of one client's mail; a second client's recovery mail must reach the relay meanwhile — violated when 25 consecutive goroutine dumps show a sender waiting in sync.(*Mutex).Lock below SMTPMailer.Send while another sits in net/smtp below the same function (stack evidence, not a deadline); anything else is inconclusive. (9) every 6th unit an account without an e-mail address asks for a recovery mail (mail goroutines on): the process survives — a worker that dies of a panic whose innermost non-runtime frame is library code is a violation, classified by the parent from the worker's output. Each client also owns an SMS-2FA account: password step (exactly one text to its own phone), code step, protected page. distinct_nontrivial = distinct interleaving signatures (hash of the global order of storer operations by account).",
		Units: func(t string) int { return tierN(t, 12, 120) },
		Run:   c20Unit,
		Floors: func(t string) map[string]int {
			return map[string]int{"client-scripts": 60, "storer-ops": 3000, "account-switches-in-global-order": 500, "concurrent-client-state-programs": 5000, "concurrent-refusals": 5000, "smtp-stall-probes-held": 2, "blank-recipient-probes-held": 2}
		},
		Assumptions: []string{"the race detector only sees accesses that actually happen in a run; schedules are those the Go scheduler plus injected yields produce", "bcrypt cost 4; no 2FA enrolment in the script (cost-10 x10 hashing under -race)"},
	})
}

var reLogNoise = regexp.MustCompile(`[0-9]+|client[0-9]+@site[0-9]+\.test|[A-Za-z0-9_-]{20,}=*`)

// errorLogShapes returns the error-level lines of the shipped defaults.Logger's output, keyed by
// their shape (numbers, identifiers and tokens blanked).
func errorLogShapes(log string) map[string]string {
	out := map[string]string{}
	for _, l := range strings.Split(log, "\n") {
		if !strings.Contains(l, "[EROR]") {
			continue
		}
		shape := reLogNoise.ReplaceAllString(l, "#")
		if len(shape) > 90 {
			shape = shape[:90]
		}
		out[strings.ReplaceAll(shape, "|", "/")] = l
	}
	return out
}
