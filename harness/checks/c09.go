package checks

import (
	"fmt"
	"strings"
	"time"

	"verif/sim"
	"verif/world"
)

type c09mon struct {
	stats *sim.Stats
	last  map[int]time.Time // browser → last authenticated activity, as the ledger knows it
	how   map[int]string    // browser → flow that started the session
}

func inList(xs []string, x string) bool {
	for _, y := range xs {
		if x == y {
			return true
		}
	}
	return false
}

// keysPutAfterDelAll returns the keys the request's session events put after its last delall.
func keysPutAfterDelAll(rec *world.Rec) (map[string]bool, bool, string) {
	put := map[string]bool{}
	saw, keep := false, ""
	for _, evs := range rec.SessWrites {
		for _, e := range evs {
			switch e.Kind {
			case "delall":
				saw, keep = true, e.Key
				put = map[string]bool{}
			case "put":
				put[e.Key] = true
			case "del":
				delete(put, e.Key)
			}
		}
	}
	return put, saw, keep
}

func (m *c09mon) Check(s *sim.Sim, st *sim.Step) []*sim.Violation {
	rec := st.Rec
	if rec.Kind != "http" || !s.Cfg.UseExpire || rec.Panic != "" {
		return nil
	}
	b := st.Act.B
	uid := rec.SessIn["uid"]
	if uid == "" {
		return nil
	}
	la, ok := m.last[b]
	if !ok {
		return nil
	}
	E := s.W.AB.Config.Modules.ExpireAfter
	wl := s.Cfg.Whitelist
	g := rec.Now.Sub(la)
	var vs []*sim.Violation
	how := m.how[b]
	switch {
	case g > E:
		m.stats.Count("expired-request")
		if rec.Probe.Ran {
			m.stats.Count("expired-request-probed")
			if rec.Probe.UID != "" || rec.Probe.UserPID != "" {
				return []*sim.Violation{vio("C09", "expired-session-served-as-authenticated|session-started-by-"+how, "request at %s after an idle gap of %s (> ExpireAfter %s) was served as %q (session started by %s; last_action at request start: %q)", ts(rec.Now), g, E, rec.Probe.UID, how, rec.SessIn["last_action"])}
			}
			for k := range rec.Probe.Sess {
				if !inList(wl, k) {
					vs = append(vs, vio("C09", "expired-session-value-visible-downstream|"+k, "downstream handler of an expired request could read session key %q", k))
				}
			}
			for _, k := range wl {
				if v, had := rec.SessIn[k]; had && rec.Probe.Sess[k] != v {
					vs = append(vs, vio("C09", "whitelisted-value-hidden", "whitelisted key %q not visible downstream on an expired request", k))
				}
			}
		}
		if rec.Wrote && !flushed(rec) && rec.FaultsFired == 0 {
			// the response went out (whatever its status: a 304 is a response too) and the wipe did not
			return append(vs, vio("C09", "expired-request-answered-without-delivering-the-wipe|"+fmt.Sprint(rec.Status), "request after an idle gap of %s (> ExpireAfter %s) was answered with %d but no session change was delivered with it", g, E, rec.Status))
		}
		if flushed(rec) {
			if _, sawWipe, _ := keysPutAfterDelAll(rec); !sawWipe {
				_, stamped := rec.SessIn["last_action"]
				return []*sim.Violation{vio("C09", fmt.Sprintf("expired-request-did-not-wipe-session|session-started-by-%s|stamp-present=%v", how, stamped), "request after an idle gap of %s (> ExpireAfter %s) did not wipe the session (started by %s; last_action at request start present: %v)", g, E, how, stamped)}
			}
			put, saw, keep := keysPutAfterDelAll(rec)
			_ = keep
			for k, v := range rec.SessOut {
				if inList(wl, k) || k == "flash_success" || k == "flash_error" {
					continue
				}
				if !(saw && put[k]) {
					vs = append(vs, vio("C09", "expired-session-value-survives|"+k, "after the response to an expired request the session still holds %s=%q, which this request did not itself put", k, trunc(v, 30)))
				}
			}
			for _, k := range wl {
				if v, had := rec.SessIn[k]; had && rec.SessOut[k] != v {
					if _, p := sim.SessPut(rec, k); !p {
						vs = append(vs, vio("C09", "whitelisted-value-lost", "whitelisted key %q was deleted by expiry", k))
					}
				}
			}
		}
	case g <= E-time.Second:
		m.stats.Count("live-request")
		if rec.Probe.Ran && rec.Probe.Route == "public" {
			if rec.Probe.UID != uid {
				vs = append(vs, vio("C09", "live-session-served-as-unauthenticated", "request after an idle gap of %s (ExpireAfter %s) was not served as %q", g, E, uid))
			}
		}
		if rec.Wrote && !flushed(rec) && rec.FaultsFired == 0 {
			vs = append(vs, vio("C09", "deadline-not-pushed-forward|response-without-session-change|"+fmt.Sprint(rec.Status), "live request answered with %d but the refreshed last_action stamp was not delivered with it", rec.Status))
		}
		if flushed(rec) && rec.SessOut["uid"] == uid {
			want := rec.Now.UTC().Format(time.RFC3339)
			if got := rec.SessOut["last_action"]; got != want {
				if _, saw, _ := keysPutAfterDelAll(rec); !saw { // a logout in the same request legitimately wipes it
					vs = append(vs, vio("C09", "deadline-not-pushed-forward", "live request did not stamp last_action=%s (found %q)", want, got))
				}
			}
		}
	default:
		m.stats.Count("band-skipped")
	}
	return vs
}

// sessHow tells how the session looks (for signatures of findings): which login kind left it.
func sessHow(rec *world.Rec) string {
	switch {
	case strings.HasPrefix(rec.SessIn["uid"], "oauth2;;"):
		return "oauth2-login"
	case rec.SessIn["twofactor"] != "":
		return "2fa-login"
	}
	return "login"
}

func (m *c09mon) Post(s *sim.Sim, st *sim.Step) []*sim.Violation {
	rec := st.Rec
	b := st.Act.B
	if st.Act.Kind == "dropsid" {
		delete(m.last, b)
		return nil
	}
	if rec.Kind != "http" || !s.Cfg.UseExpire {
		return nil
	}
	E := s.W.AB.Config.Modules.ExpireAfter
	uidIn := rec.SessIn["uid"]
	la, had := m.last[b]
	switch {
	case rec.SessOut["uid"] == "":
		delete(m.last, b)
	case sim.SessPutAny(rec, "uid", rec.SessOut["uid"]):
		// a login of any kind in this request starts the idle clock
		m.last[b] = rec.Now
		m.how[b] = flowOf(s, rec)
		if m.how[b] == "" && sim.IssuedCookie(rec) != "" && rec.SessIn["uid"] == "" {
			m.how[b] = "remember-cookie"
		}
		m.stats.Count("clock-started:" + m.how[b])
	case uidIn != "" && had && flushed(rec) && rec.Now.Sub(la) <= E-time.Second:
		m.last[b] = rec.Now
	case uidIn != "" && had && rec.Now.Sub(la) > E-time.Second && rec.Now.Sub(la) <= E:
		// unspecified band: follow what the library did
		if rec.SessOut["last_action"] == rec.Now.UTC().Format(time.RFC3339) {
			m.last[b] = rec.Now
		}
	}
	return nil
}

func (m *c09mon) Sig(s *sim.Sim, st *sim.Step) string {
	rec := st.Rec
	if rec.Kind != "http" || !s.Cfg.UseExpire || rec.SessIn["uid"] == "" {
		return ""
	}
	la, ok := m.last[st.Act.B]
	if !ok {
		return ""
	}
	E := s.W.AB.Config.Modules.ExpireAfter
	g := rec.Now.Sub(la)
	gc := ""
	switch {
	case g == 0:
		gc = "0"
	case g <= E-2*time.Second:
		gc = "<E-2s"
	case g <= E-time.Second:
		gc = "E-2s..E-1s"
	case g <= E:
		gc = "band"
	case g == E+time.Nanosecond:
		gc = "E+1ns"
	case g <= E+time.Second:
		gc = "E..E+1s"
	default:
		gc = ">E+1s"
	}
	return fmt.Sprintf("%s/E=%s/gap=%s/wl=%d/%s/%s/probe=%v/uidout=%v", st.Act.Kind, E, gc, len(s.Cfg.Whitelist), sessClass(rec.SessIn), m.how[st.Act.B], rec.Probe.Ran, rec.SessOut["uid"] != "")
}

var c09Profile = &sim.Profile{
	W: map[string]int{
		"login": 14, "visit": 30, "advance": 30, "appset": 6, "logout": 2, "otp_login": 2, "otp_add": 2, "totp_validate": 4, "sms_validate": 4,
		"oauth_start": 3, "oauth_cb": 5, "register": 3, "recover_start": 1, "recover_end": 2, "get": 3, "totp_setup": 1, "sms_setup": 1, "raw": 1,
	},
	Cls: map[string]map[string]int{
		"login":         {"ok": 90, "wrong": 10},
		"oauth_cb":      {"own": 100},
		"oauth_cb2":     {"validcode": 100},
		"totp_validate": {"ok": 85, "wrong": 15},
		"sms_validate":  {"ok": 85, "wrong": 15},
		"recover_end":   {"current": 100},
		"newpw":         {"fresh": 100},
	},
	MinLen: 25, MaxLen: 60,
}

// c09RememberTemplates: configurations with remember.Middleware in front of expire.Middleware.
var c09RememberTemplates = []sim.Template{
	{Name: "remembered-session-idles-out", F: func(s *sim.Sim) []*sim.Action {
		// a session rebuilt from the remember cookie (half-authenticated, and it stays half-authenticated
		// for as long as nobody logs in again) idles out like any other; with the cookie gone from the
		// browser, or its tokens purged, nothing brings it back
		if !s.Cfg.RememberBeforeExpire {
			return nil
		}
		v := findAcct(s, func(u *world.User) bool { return u.TOTPSecretKey == "" && u.SMSPhone == "" && u.Confirmed })
		if v < 0 {
			return nil
		}
		b := s.R.Intn(len(s.Br))
		E := s.W.AB.Config.Modules.ExpireAfter
		sc := []*sim.Action{act("login", b, v, "ok", "rm", "true"), act("dropsid", b, -9, ""), act("visit", b, -9, "", "route", "/public"),
			act("advance", b, -9, "", "d", pickD(s.R, E/2, time.Second).String()), act("visit", b, -9, "", "route", "/protected/bare")}
		if s.R.Intn(3) != 0 {
			sc = append(sc, act("steal", b, -9, "raw", "val", "")) // the cookie is gone from this browser
		}
		sc = append(sc, act("advance", b, -9, "", "d", pickD(s.R, E+time.Second, 3*E, 10*E).String()),
			act("visit", b, -9, "", "route", pickS(s.R, "/public", "/protected/bare", "/protected/plain")), act("visit", b, -9, "", "route", "/public"))
		return sc
	}},
}

// c09ConfirmTemplates: registration with e-mail confirmation in force leaves a session that is not
// logged in; the login that follows — however much later — starts the idle clock.
var c09ConfirmTemplates = []sim.Template{
	{Name: "late-login-after-a-registration-that-awaited-confirmation", F: func(s *sim.Sim) []*sim.Action {
		if !s.Cfg.Has("confirm") || !s.Cfg.Has("register") || !s.Cfg.Has("auth") {
			return nil
		}
		b := s.R.Intn(len(s.Br))
		n := len(s.Accts) // the account the registration creates
		E := s.W.AB.Config.Modules.ExpireAfter
		reg := act("register", b, -1, "")
		reg.Cls2 = "fresh"
		return []*sim.Action{reg, act("advance", b, -9, "", "d", pickD(s.R, 3*E, E+time.Second, E/2).String()), act("confirm", b, n, "current"),
			act("login", b, n, "ok"), act("visit", b, -9, "", "route", "/public"), act("advance", b, -9, "", "d", (E / 2).String()), act("visit", b, -9, "", "route", "/protected/bare")}
	}},
}

var c09ConfirmProfile = func() *sim.Profile {
	p := *c09Profile
	p.W = map[string]int{}
	for k, v := range c09Profile.W {
		p.W[k] = v
	}
	p.W["confirm"], p.W["admin_startconfirm"] = 4, 2
	p.Templates, p.TplProb = c09ConfirmTemplates, 0.6
	return &p
}()

var c09RememberProfile = func() *sim.Profile {
	p := *c09Profile
	p.W = map[string]int{}
	for k, v := range c09Profile.W {
		p.W[k] = v
	}
	p.W["dropsid"], p.W["steal"] = 6, 2
	p.Templates, p.TplProb = c09RememberTemplates, 0.5
	return &p
}()

func init() {
	register(&Check{
		ID: "C09", Level: "exploration",
		Rule:  "expire middleware installed; ExpireAfter in {2s, 90s, 1h, 37h, and values that are no whole number of seconds: 1.5s, 2.5s, 90.5s, 1h+1ns}; request sequences of logged-in browsers separated by clock advances from {1s,…,E/2,E-2s,E-1s,E-1ns,E,E+1ns,E+1s,3E}; whitelists of 0/1/3 application keys with values that must survive; sessions created by password, OTP, recover-and-login, TOTP/SMS second step, OAuth2, registration and — in a quarter of the units, where remember.Middleware sits in front of expire.Middleware — by the remember cookie (half-authenticated sessions that idle out with the cookie gone from the browser); expired requests that are themselves logins. The ledger keeps each browser's last authenticated activity (started by ANY login). Oracle per request of a logged-in browser with true gap g: g>E => the downstream probe sees no user and no non-whitelisted key, and the response leaves only whitelisted keys (+flash, + keys this very request put after the wipe); g<=E-1s => served as that user and last_action==now; the 1-second band below E (stamp resolution) is not judged. distinct_nontrivial = distinct (action, E, gap class, whitelist size, session state, login kind, probe ran, uid after) signatures.",
		Units: func(t string) int { return tierN(t, 800, 40000) },
		Run: func(c *RunCtx, unit int) {
			r := Rng(c.Seed, "C09", unit)
			cfg := randomCfg(r, "auth")
			cfg.UseExpire = true
			cfg.ExpireAfter = pickD(r, 2*time.Second, 90*time.Second, time.Hour, 37*time.Hour, 1500*time.Millisecond, 2500*time.Millisecond, 90*time.Second+500*time.Millisecond, time.Hour+time.Nanosecond)
			// incl. application keys whose NAMES contain library key names (uid, twofactor, halfauth)
			cfg.Whitelist = [][]string{nil, {"app_theme"}, {"app_theme", "app_lang", "app_cart"}, {"app_uid"}, {"app_theme", "app_twofactor_hint", "xhalfauthx"}}[r.Intn(5)]
			var mods []string
			withConfirm := unit%5 == 4 // a fifth of the units keep e-mail confirmation in force
			for _, m := range cfg.Modules {
				if m != "lock" && (m != "confirm" || withConfirm) { // keep logins unobstructed: this check is about idling
					mods = append(mods, m)
				}
			}
			cfg.Modules = mods
			prof := c09Profile
			if withConfirm {
				for _, need := range []string{"confirm", "register"} {
					if !cfg.Has(need) {
						cfg.Modules = append(cfg.Modules, need)
					}
				}
				prof = c09ConfirmProfile
			}
			if unit%4 == 3 {
				// remember.Middleware in front of expire.Middleware
				if !cfg.Has("remember") {
					cfg.Modules = append(cfg.Modules, "remember")
				}
				cfg.RememberBeforeExpire = true
				prof = c09RememberProfile
			}
			s, err := sim.New(cfg, r, sim.SeedOpt{Accounts: 3, Browsers: 2, TwoFAProb: 0.3})
			if err != nil {
				c.Stats.Inconclusive = append(c.Stats.Inconclusive, "world: "+err.Error())
				return
			}
			sim.RunHistory(s, prof, []sim.Monitor{&c09mon{stats: c.Stats, last: map[int]time.Time{}, how: map[int]string{}}}, c.Stats, unit)
		},
		Floors: func(t string) map[string]int {
			return map[string]int{"expired-request": 200, "expired-request-probed": 50, "live-request": 500, "clock-started:login": 100, "clock-started:oauth_cb": 5, "clock-started:register": 5, "clock-started:remember-cookie": 20}
		},
		Assumptions: []string{"last_action has 1-second resolution (RFC3339): true gaps in (ExpireAfter-1s, ExpireAfter] are unspecified and not judged", "flash keys written by the response itself are exempt from the wipe"},
	})
}
