package checks

import (
	"fmt"
	"strings"
	"time"

	"verif/sim"
	"verif/world"
)

type c13mon struct {
	stats *sim.Stats
	lv    authLevels // browser → how its session came to name its user (see c07.go)
}

func routeOf(s *sim.Sim, rec *world.Rec) string {
	p := strings.SplitN(rec.Target, "?", 2)[0]
	return rec.Method + " " + strings.TrimPrefix(p, s.Cfg.Mount)
}

var enrolRoutes = map[string]bool{
	"GET /2fa/totp/setup": true, "POST /2fa/totp/setup": true, "GET /2fa/totp/qr": true, "GET /2fa/totp/confirm": true, "POST /2fa/totp/confirm": true,
	"GET /2fa/sms/setup": true, "POST /2fa/sms/setup": true, "GET /2fa/sms/confirm": true, "POST /2fa/sms/confirm": true,
}

func (m c13mon) Check(s *sim.Sim, st *sim.Step) []*sim.Violation {
	a, rec := st.Act, st.Rec
	var vs []*sim.Violation
	defer m.lv.observe(s, st) // the ledger below is the one from before this request
	if rec.Kind != "http" {
		// programmatic operations never touch 2FA settings
		for _, d := range rec.Diff() {
			if d.Field == "TOTPSecretKey" || d.Field == "SMSPhone" || d.Field == "RecoveryCodes" {
				vs = append(vs, vio("C13", "2fa-setting-changed-outside-a-request|"+d.Field, "%s of %q changed during %s", d.Field, d.PID, rec.Target))
			}
		}
		return vs
	}
	route := routeOf(s, rec)
	owner := rec.SessIn["uid"]
	// fully authenticated: the session says so AND the ledger agrees — a session that names its user
	// only on the strength of a remember cookie is half-authenticated whatever has become of its mark
	full := owner != "" && rec.SessIn["halfauth"] == "" && m.lv[a.B] != "half"

	sessState := "anonymous"
	switch {
	case owner != "" && !full:
		sessState = "half-authenticated"
	case full:
		sessState = "fully-authenticated"
	case rec.SessIn["totp_pending"] != "" || rec.SessIn["sms_pending"] != "":
		sessState = "password-step-only"
	}
	for _, d := range rec.Diff() {
		if d.Field != "TOTPSecretKey" && d.Field != "SMSPhone" && d.Field != "RecoveryCodes" {
			continue
		}
		if d.Field == "<created>" {
			continue
		}
		u := rec.Before.Users[d.PID]
		wellFormed := a.Kind != "raw"
		// the one allowed exception: a validate (or remove) request consuming the recovery code it presented
		if d.Field == "RecoveryCodes" && wellFormed && (strings.HasSuffix(a.Kind, "_validate") || strings.HasSuffix(a.Kind, "_remove")) && a.Secret2 != "" {
			kind := strings.SplitN(a.Kind, "_", 2)[0]
			sub := subjectOf(s, rec, kind)
			if sub == d.PID && liveRecovery(s, d.PID, a.Secret2) && len(splitCSV(d.New)) == len(splitCSV(d.Old))-1 {
				m.stats.Count("recovery-code-consumed")
				continue
			}
		}
		if owner != d.PID || !full {
			vs = append(vs, vio("C13", fmt.Sprintf("%s-changed-by-%s-session|%s", d.Field, sessState, route), "%s of %q changed by %s from a session that is %s (uid=%q halfauth=%q)", d.Field, d.PID, route, sessState, owner, rec.SessIn["halfauth"]))
			continue
		}
		switch d.Field {
		case "TOTPSecretKey":
			if d.New != "" { // enable / re-key
				sec := rec.SessIn["totp_secret"]
				ok := wellFormed && route == "POST /2fa/totp/confirm" && sec != "" && d.New == sec && sim.TOTPOK(sec, a.Secret)
				if !ok {
					vs = append(vs, vio("C13", "totp-enabled-without-proof|"+route+"|"+a.Resolved, "TOTP secret of %q set by %s without a valid code for the enrolment secret of this session (class %s)", d.PID, route, a.Resolved))
				} else {
					m.stats.Count("totp-enabled")
				}
			} else { // disable
				ok := wellFormed && route == "POST /2fa/totp/remove" && ((a.Secret2 == "" && u != nil && sim.TOTPOK(u.TOTPSecretKey, a.Secret)) || liveRecovery(s, d.PID, a.Secret2))
				if !ok {
					vs = append(vs, vio("C13", "totp-disabled-without-proof|"+route+"|"+a.Resolved, "TOTP of %q disabled by %s without a current code or unused recovery code (class %s)", d.PID, route, a.Resolved))
				} else {
					m.stats.Count("totp-disabled")
				}
			}
		case "SMSPhone":
			if d.New != "" {
				num := rec.SessIn["sms_number"]
				ok := wellFormed && route == "POST /2fa/sms/confirm" && num != "" && d.New == num && s.SMSSentTo(num, a.Secret)
				if !ok {
					vs = append(vs, vio("C13", "sms-enabled-without-proof|"+route+"|"+a.Resolved, "SMS number %q of %q set by %s with code %q, which was never delivered to that number (session number %q, class %s)", d.New, d.PID, route, a.Secret, num, a.Resolved))
				} else {
					m.stats.Count("sms-enabled")
				}
			} else {
				ok := wellFormed && route == "POST /2fa/sms/remove" && ((a.Secret2 == "" && u != nil && s.SMSSentTo(u.SMSPhone, a.Secret)) || liveRecovery(s, d.PID, a.Secret2))
				if !ok {
					vs = append(vs, vio("C13", "sms-disabled-without-proof|"+route+"|"+a.Resolved, "SMS 2FA of %q (number %q) disabled by %s with code %q never delivered to that number and no unused recovery code (class %s)", d.PID, u.SMSPhone, route, a.Secret, a.Resolved))
				} else {
					m.stats.Count("sms-disabled")
				}
			}
		case "RecoveryCodes":
			// a proven (re-)enrolment: the stored factor after the request is the one proven now
			enrol := false
			if after := rec.After.Users[d.PID]; after != nil && wellFormed {
				switch route {
				case "POST /2fa/totp/confirm":
					sec := rec.SessIn["totp_secret"]
					enrol = sec != "" && after.TOTPSecretKey == sec && sim.TOTPOK(sec, a.Secret)
				case "POST /2fa/sms/confirm":
					num := rec.SessIn["sms_number"]
					enrol = num != "" && after.SMSPhone == num && s.SMSSentTo(num, a.Secret)
				}
			}
			if !(enrol || route == "POST /2fa/recovery/regen") {
				vs = append(vs, vio("C13", "recovery-codes-changed|"+route, "recovery codes of %q changed by %s (neither regeneration, enrolment, nor consumption of a presented code)", d.PID, route))
			} else if !enrol {
				m.stats.Count("regenerated")
			}
		}
	}
	// e-mail authorisation gate
	if s.Cfg.TwoFAEmail && enrolRoutes[route] && rec.HandlerRan {
		if bs := s.Br[a.B]; !bs.EVAuthed || bs.EVFor != owner {
			tokenInSession := rec.SessIn["twofactor_auth_token"] != ""
			vs = append(vs, vio("C13", fmt.Sprintf("enrolment-route-reached-without-email-authorisation|token-requested=%v", tokenInSession), "%s ran for %q although this session never presented the token e-mailed to the account for it (twofactor_authed=%q, token requested in this session: %v)", route, owner, rec.SessIn["twofactor_authed"], tokenInSession))
		} else {
			m.stats.Count("enrolment-route-after-email-authorisation")
		}
	}
	if s.Cfg.TwoFAEmail && enrolRoutes[route] && !rec.HandlerRan && full {
		m.stats.Count("enrolment-route-gated")
	}
	return vs
}

func (m c13mon) Post(s *sim.Sim, st *sim.Step) []*sim.Violation { return nil }

func (m c13mon) Sig(s *sim.Sim, st *sim.Step) string {
	rec := st.Rec
	if rec.Kind != "http" {
		return ""
	}
	route := routeOf(s, rec)
	if !strings.Contains(route, "/2fa/") {
		return ""
	}
	ch := ""
	for _, d := range rec.Diff() {
		if d.Field == "TOTPSecretKey" || d.Field == "SMSPhone" || d.Field == "RecoveryCodes" {
			ch += "+" + d.Field
		}
	}
	return fmt.Sprintf("%s/%s/%s/%s/email=%v/ran=%v/%s%s", route, st.Act.Resolved, sessClass(rec.SessIn), acctClass(s, rec.Before, subjectOf(s, rec, "totp")), s.Cfg.TwoFAEmail, rec.HandlerRan, modeOf(s.Cfg), ch)
}

var c13Templates = []sim.Template{
	{Name: "empty-email-token", F: func(s *sim.Sim) []*sim.Action {
		if !s.Cfg.TwoFAEmail || !s.Cfg.Has("auth") {
			return nil
		}
		v := findAcct(s, func(u *world.User) bool { return u.TOTPSecretKey == "" && u.SMSPhone == "" && u.Confirmed })
		if v < 0 {
			return nil
		}
		k := s.Cfg.TwoFA[s.R.Intn(len(s.Cfg.TwoFA))]
		return []*sim.Action{act("login", 0, v, "ok"), act(k+"_setup", 0, -9, "own"), act("ev_end", 0, -9, pickS(s.R, "empty", "absent", "garbage"), "kind", k), act(k+"_setup", 0, -9, "own"), act("get", 0, -9, "", "route", "/2fa/"+k+"/setup")}
	}},
	{Name: "email-verify-full-cycle", F: func(s *sim.Sim) []*sim.Action {
		if !s.Cfg.TwoFAEmail || !s.Cfg.Has("auth") {
			return nil
		}
		v := findAcct(s, func(u *world.User) bool { return u.TOTPSecretKey == "" && u.SMSPhone == "" && u.Confirmed })
		w := findAcct(s, func(u *world.User) bool { return u.TOTPSecretKey == "" && u.SMSPhone == "" && u.Confirmed }, v)
		if v < 0 {
			return nil
		}
		k := s.Cfg.TwoFA[s.R.Intn(len(s.Cfg.TwoFA))]
		sc := []*sim.Action{act("login", 0, v, "ok"), act("ev_start", 0, -9, "", "kind", k)}
		if w >= 0 {
			sc = append(sc, act("login", 1, w, "ok"), act("ev_start", 1, -9, "", "kind", k), act("ev_end", 0, -9, "othersession", "kind", k), act(k+"_setup", 0, -9, "own"))
		}
		sc = append(sc, act("ev_end", 0, -9, "current", "kind", k), act(k+"_setup", 0, -9, "own"))
		if s.R.Intn(2) == 0 {
			// the application's own After(EventTwoFactorAdded) listener answers the confirming request
			// itself, or fails in it: the enrolment is complete all the same, and its authorisation spent
			sc = append(sc, act("hooknext", 0, -9, "", "mode", pickS(s.R, "handled", "handled", "error")))
		}
		if k == "totp" {
			sc = append(sc, act("totp_confirm", 0, -9, "ok"), act("totp_setup", 0, -9, ""), act("get", 0, -9, "", "route", "/2fa/totp/setup"))
		} else {
			sc = append(sc, act("sms_confirm", 0, -9, "ok"), act("sms_setup", 0, -9, "own"), act("get", 0, -9, "", "route", "/2fa/sms/setup"))
		}
		if len(s.Cfg.TwoFA) == 2 {
			// one e-mail authorisation covers one enrolment: not the other kind's either
			o := map[string]string{"totp": "sms", "sms": "totp"}[k]
			sc = append(sc, act("get", 0, -9, "", "route", "/2fa/"+o+"/setup"), act(o+"_setup", 0, -9, "own"))
		}
		return sc
	}},
	{Name: "account-switch-around-email-verify", F: func(s *sim.Sim) []*sim.Action {
		if !s.Cfg.TwoFAEmail || !s.Cfg.Has("auth") {
			return nil
		}
		free := func(u *world.User) bool { return u.TOTPSecretKey == "" && u.SMSPhone == "" && u.Confirmed }
		v := findAcct(s, free)
		x := findAcct(s, free, v)
		if v < 0 || x < 0 {
			return nil
		}
		k := s.Cfg.TwoFA[s.R.Intn(len(s.Cfg.TwoFA))]
		// victim's session requests the mail, the SAME session logs in as somebody else (no logout),
		// presents nothing / garbage / the token there, and comes back
		mid := act("ev_end", 0, -9, pickS(s.R, "empty", "absent", "garbage", "current"), "kind", k)
		sc := []*sim.Action{act("login", 0, v, "ok"), act("ev_start", 0, -9, "", "kind", k), act("login", 0, x, "ok"), mid}
		if s.R.Intn(2) == 0 {
			sc = append(sc, act(k+"_setup", 0, -9, "own"))
		}
		sc = append(sc, act("login", 0, v, "ok"), act("get", 0, -9, "", "route", "/2fa/"+k+"/setup"), act(k+"_setup", 0, -9, "own"))
		return sc
	}},
	{Name: "recovery-code-reuse-on-remove", F: func(s *sim.Sim) []*sim.Action {
		if len(s.Cfg.TwoFA) == 0 || !s.Cfg.Has("auth") {
			return nil
		}
		k := s.Cfg.TwoFA[s.R.Intn(len(s.Cfg.TwoFA))]
		v := findAcct(s, func(u *world.User) bool {
			return (k == "totp" && u.TOTPSecretKey != "") || (k == "sms" && u.SMSPhone != "" && u.TOTPSecretKey == "")
		})
		if v < 0 {
			return nil
		}
		return []*sim.Action{act("login", 0, v, "ok"), act(k+"_validate", 0, -9, "recovery"), act(k+"_remove", 0, -9, "recovery_spent"), act(k+"_remove", 0, -9, "recovery_other"), act(k+"_remove", 0, -9, "recovery")}
	}},
	{Name: "enrol-code-on-remove-page", F: func(s *sim.Sim) []*sim.Action {
		if !s.Cfg.Has2FA("sms") || s.Cfg.TwoFAEmail || !s.Cfg.Has("auth") {
			return nil
		}
		v := findAcct(s, func(u *world.User) bool { return u.SMSPhone != "" && u.TOTPSecretKey == "" })
		if v < 0 {
			return nil
		}
		// log in fully (own code), start a new enrolment to a fresh number (code goes to THAT number),
		// then use that code on the remove page
		return []*sim.Action{act("login", 0, v, "ok"), act("sms_validate", 0, -9, "ok"), act("advance", 0, -9, "", "d", "11s"), act("sms_setup", 0, -9, "fresh"), act("sms_remove", 0, -9, "lastsms"), act("sms_remove", 0, -9, "ok")}
	}},
	{Name: "two-setups-inside-resend-limit", F: func(s *sim.Sim) []*sim.Action {
		if !s.Cfg.Has2FA("sms") || s.Cfg.TwoFAEmail || !s.Cfg.Has("auth") {
			return nil
		}
		v := findAcct(s, func(u *world.User) bool { return u.SMSPhone == "" && u.TOTPSecretKey == "" && u.Confirmed })
		if v < 0 {
			return nil
		}
		gap := pickS(s.R, "1s", "9s", "11s")
		return []*sim.Action{act("login", 0, v, "ok"), act("sms_setup", 0, -9, "own"), act("advance", 0, -9, "", "d", gap), act("sms_setup", 0, -9, "fresh"), act("sms_confirm", 0, -9, "lastsms"), act("sms_confirm", 0, -9, "ok")}
	}},
	{Name: "halfauth-and-pending-sessions", F: func(s *sim.Sim) []*sim.Action {
		if !s.RememberActive() || !s.Cfg.Has("auth") || len(s.Cfg.TwoFA) == 0 {
			return nil
		}
		v := findAcct(s, func(u *world.User) bool { return u.TOTPSecretKey == "" && u.SMSPhone == "" && u.Confirmed })
		if v < 0 {
			return nil
		}
		k := s.Cfg.TwoFA[s.R.Intn(len(s.Cfg.TwoFA))]
		sc := []*sim.Action{act("login", 0, v, "ok", "rm", "true"), act("dropsid", 0, -9, ""), act("visit", 0, -9, "", "route", "/public"), act(k+"_setup", 0, -9, "own"), act("regen", 0, -9, "")}
		if k == "totp" {
			sc = append(sc, act("totp_confirm", 0, -9, "ok"))
		} else {
			sc = append(sc, act("sms_confirm", 0, -9, "lastsms"))
		}
		return sc
	}},
	{Name: "remembered-2fa-account-password-step-then-settings", F: func(s *sim.Sim) []*sim.Action {
		// an account WITH a second factor whose browser is authenticated by the remember cookie only (a
		// second-factor login never sets that cookie, so it dates from before the enrolment); the password
		// step of a new login is parked at the second factor and never completed; settings requests from
		// that session are requests of a half-authenticated session
		if !s.RememberActive() || !s.Cfg.Has("auth") || len(s.Cfg.TwoFA) == 0 || s.Cfg.TwoFAEmail {
			return nil
		}
		k := s.Cfg.TwoFA[s.R.Intn(len(s.Cfg.TwoFA))]
		v := findAcct(s, func(u *world.User) bool { return u.Confirmed && u.TOTPSecretKey == "" && u.SMSPhone == "" })
		if v < 0 {
			return nil
		}
		sc := []*sim.Action{act("login", 0, v, "ok", "rm", "true")}
		if k == "totp" {
			sc = append(sc, act("totp_setup", 0, -9, ""), act("totp_confirm", 0, -9, "ok"))
		} else {
			sc = append(sc, act("sms_setup", 0, -9, "own"), act("sms_confirm", 0, -9, "ok"))
		}
		sc = append(sc, act("dropsid", 0, -9, ""), act("visit", 0, -9, "", "route", "/public"), act("advance", 0, -9, "", "d", "31s"), act("login", 0, v, "ok"),
			act("regen", 0, -9, ""), act(k+"_remove", 0, -9, pickS(s.R, "ok", "recovery")))
		if k == "totp" {
			sc = append(sc, act("totp_setup", 0, -9, ""))
		} else {
			sc = append(sc, act("sms_setup", 0, -9, "fresh"))
		}
		return sc
	}},
	{Name: "rekey-with-a-recovery-code-instead-of-the-new-factors-code", F: func(s *sim.Sim) []*sim.Action {
		// an account that already has the factor starts enrolling a new number / a new TOTP secret and
		// answers the confirm step with one of its recovery codes: a recovery code replaces the second
		// factor at login and removal, it proves nothing about the NEW number or secret
		if len(s.Cfg.TwoFA) == 0 || s.Cfg.TwoFAEmail || !s.Cfg.Has("auth") {
			return nil
		}
		k := s.Cfg.TwoFA[s.R.Intn(len(s.Cfg.TwoFA))]
		v := findAcct(s, func(u *world.User) bool {
			return u.Confirmed && ((k == "totp" && u.TOTPSecretKey != "" && u.SMSPhone == "") || (k == "sms" && u.SMSPhone != "" && u.TOTPSecretKey == ""))
		})
		if v < 0 {
			return nil
		}
		sc := []*sim.Action{act("login", 0, v, "ok"), act(k+"_validate", 0, -9, "ok"), act("advance", 0, -9, "", "d", "31s")}
		if k == "sms" {
			sc = append(sc, act("sms_setup", 0, -9, "fresh"), act("sms_confirm", 0, -9, "recovery"), act("sms_confirm", 0, -9, "recovery_other"), act("sms_confirm", 0, -9, "wrong"))
		} else {
			sc = append(sc, act("totp_setup", 0, -9, ""), act("totp_confirm", 0, -9, "recovery"), act("totp_confirm", 0, -9, "othertotp"), act("totp_confirm", 0, -9, "wrong"))
		}
		return sc
	}},
	{Name: "another-accounts-recovery-completed-in-a-remembered-session", F: func(s *sim.Sim) []*sim.Action {
		// V's browser is authenticated by the remember cookie only; somebody else's password recovery is
		// completed in that very session (login-after-recovery off: the session stays V's and stays
		// half-authenticated); settings requests afterwards are still requests of a half-authenticated session
		if !s.RememberActive() || !s.Cfg.Has("auth") || !s.Cfg.Has("recover") || s.Cfg.RecoverLogin || len(s.Cfg.TwoFA) == 0 || s.Cfg.TwoFAEmail {
			return nil
		}
		k := s.Cfg.TwoFA[s.R.Intn(len(s.Cfg.TwoFA))]
		free := func(u *world.User) bool { return u.Confirmed && u.TOTPSecretKey == "" && u.SMSPhone == "" }
		v := findAcct(s, free)
		w := findAcct(s, free, v)
		if v < 0 || w < 0 {
			return nil
		}
		sc := []*sim.Action{act("login", 0, v, "ok", "rm", "true")}
		if k == "totp" {
			sc = append(sc, act("totp_setup", 0, -9, ""), act("totp_confirm", 0, -9, "ok"))
		} else {
			sc = append(sc, act("sms_setup", 0, -9, "own"), act("sms_confirm", 0, -9, "ok"))
		}
		e := act("recover_end", 0, w, "current")
		e.Cls2 = "fresh"
		sc = append(sc, act("dropsid", 0, -9, ""), act("visit", 0, -9, "", "route", "/public"), act("recover_start", 0, w, ""), e,
			act("regen", 0, -9, ""), act(k+"_remove", 0, -9, pickS(s.R, "ok", "recovery")), act("visit", 0, -9, "", "route", "/protected/full"))
		return sc
	}},
	{Name: "confirm-page-without-a-pending-enrolment", F: func(s *sim.Sim) []*sim.Action {
		// POST /2fa/totp/confirm from a fully authenticated session that never started an enrolment (no
		// secret pending in the session), with every kind of code — among them the code of the EMPTY secret,
		// which anybody can compute: nothing about the account's second factor changes
		if !s.Cfg.Has2FA("totp") || s.Cfg.TwoFAEmail || !s.Cfg.Has("auth") {
			return nil
		}
		v := findAcct(s, func(u *world.User) bool { return u.Confirmed && u.TOTPSecretKey != "" && u.SMSPhone == "" })
		if v < 0 {
			return nil
		}
		return []*sim.Action{act("login", 0, v, "ok"), act("totp_validate", 0, -9, "ok"), act("totp_confirm", 0, -9, "emptysecret"), act("totp_confirm", 0, -9, "ok"),
			act("totp_confirm", 0, -9, "empty"), act("totp_confirm", 0, -9, "recovery"), act("visit", 0, -9, "", "route", "/protected/2fa")}
	}},
	{Name: "enrol-totp", F: func(s *sim.Sim) []*sim.Action {
		if !s.Cfg.Has2FA("totp") || s.Cfg.TwoFAEmail || !s.Cfg.Has("auth") {
			return nil
		}
		v := findAcct(s, func(u *world.User) bool { return u.TOTPSecretKey == "" && u.SMSPhone == "" && u.Confirmed })
		if v < 0 {
			return nil
		}
		return []*sim.Action{act("login", 0, v, "ok"), act("totp_setup", 0, -9, ""), act("totp_confirm", 0, -9, "wrong"), act("totp_confirm", 0, -9, "othertotp"), act("totp_confirm", 0, -9, "ok"), act("totp_remove", 0, -9, "wrong"), act("totp_remove", 0, -9, pickS(s.R, "ok", "recovery"))}
	}},
}

var c13Profile = &sim.Profile{
	W: map[string]int{
		"login": 16, "totp_setup": 8, "totp_confirm": 8, "totp_remove": 6, "totp_validate": 6, "totp_confirm_get": 2, "sms_setup": 8, "sms_confirm": 8,
		"sms_remove": 6, "sms_validate": 6, "regen": 3, "ev_start": 6, "ev_end": 8, "logout": 3, "dropsid": 3, "visit": 3, "advance": 4, "get": 4, "steal": 1, "raw": 1, "faultnext": 3,
	},
	Cls: map[string]map[string]int{
		"login": {"ok": 90, "wrong": 10},
	},
	MinLen: 20, MaxLen: 40, Templates: c13Templates, TplProb: 0.65, NoiseProb: 0.1,
}

var c13GluedProfile = &sim.Profile{
	W:      map[string]int{"login": 20, "sms_validate": 20, "regen": 10, "visit": 10, "advance": 5, "sms_setup": 5, "sms_confirm": 5},
	Cls:    map[string]map[string]int{"sms_validate": {"numcode": 40, "ok": 30, "wrong": 30}, "sms_confirm": {"numcode": 50, "ok": 30, "wrong": 20}},
	MinLen: 12, MaxLen: 22, TplProb: 1,
	Templates: []sim.Template{{Name: "remembered-session-plus-own-parked-sms-login", F: func(s *sim.Sim) []*sim.Action {
		if !s.RememberActive() || !s.Cfg.Has("auth") || !s.Cfg.Has2FA("sms") {
			return nil
		}
		v := findAcct(s, func(u *world.User) bool { return u.Confirmed && u.SMSPhone == "" && u.TOTPSecretKey == "" })
		if v < 0 {
			return nil
		}
		var own = -1
		for i := range s.Accts {
			if u := s.W.Store.Peek(s.Accts[i].PID); i != v && u != nil && u.SMSPhone != "" && u.TOTPSecretKey == "" && u.Confirmed {
				own = i
			}
		}
		if own < 0 {
			return nil
		}
		// the victim's browser is remembered; its session is lost and restored from the cookie (half-authenticated);
		// the intruder at that browser runs the password step of his OWN SMS account, then posts glued "codes"
		return []*sim.Action{act("login", 0, v, "ok", "rm", "true"), act("dropsid", 0, -9, ""), act("visit", 0, -9, "", "route", "/public"),
			act("login", 0, own, "ok"), act("sms_validate", 0, -9, "numcode"), act("regen", 0, -9, ""), act("visit", 0, -9, "", "route", "/protected/full"),
			act("sms_setup", 0, -9, "fresh"), act("sms_confirm", 0, -9, "numcode")}
	}}},
}

func init() {
	register(&Check{
		ID: "C13", Level: "exploration",
		Rule:  "histories of setup/confirm/remove/regenerate/e-mail-verify requests from fully authenticated, half-authenticated (remember), password-step-only and anonymous sessions of 4 accounts, code/token strings incl. empty, other sessions' tokens, codes delivered to other numbers; directed templates (empty e-mail token in a session that never requested one, full e-mail cycle incl. other session's token and re-gating after enrolment, enrolment code replayed on the remove page, two setups inside the resend limit with different numbers, half-authed enrolment attempts; a remembered browser of a 2FA account whose new login stops at the password step, then settings requests). 'Fully authenticated' is what the session says AND what the ledger of how the session got its user says. Oracle: every diff in TOTPSecretKey/SMSPhone/RecoveryCodes of U must come from a request whose session at request start is uid=U without halfauth and carries the proof for exactly that change (code valid for the session's enrolment secret == stored secret; code the outbox delivered to the number being enrolled == stored number; current code / unused recovery code for removal; full auth for regeneration), the only exception being consumption of a presented recovery code; with e-mail authorisation required an enrolment handler runs only in a session the ledger saw present the token mailed to that account for that session, and the authorisation is spent by a completed enrolment. In even units a second history (its own PRNG) runs with the lock module loaded and its threshold out of reach: its hooks save the user object the 2FA handlers worked on after every failed attempt. Odd units run a third, directed history: a remembered (half-authenticated) session of an account WITHOUT SMS, the visitor's own SMS login parked in it, and 'codes' that are a phone number glued to a code. distinct_nontrivial = distinct (route, code class, session state, account state, e-mail gate, handler ran, mode, fields changed) signatures.",
		Units: func(t string) int { return tierN(t, 360, 6000) },
		Run: func(c *RunCtx, unit int) {
			r := Rng(c.Seed, "C13", unit)
			cfg := randomCfg(r, "auth", "logout")
			var mods []string
			for _, m := range cfg.Modules {
				if m != "confirm" && m != "lock" {
					mods = append(mods, m)
				}
			}
			cfg.Modules = mods
			if len(cfg.TwoFA) == 0 {
				cfg.TwoFA = [][]string{{"totp"}, {"sms"}, {"totp", "sms"}}[r.Intn(3)]
			}
			cfg.TwoFAEmail = r.Intn(2) == 0
			cfg.OnUnauthed = r.Intn(3)
			s, err := sim.New(cfg, r, sim.SeedOpt{Accounts: 4, Browsers: 3, TwoFAProb: 0.4})
			if err != nil {
				c.Stats.Inconclusive = append(c.Stats.Inconclusive, "world: "+err.Error())
				return
			}
			sim.RunHistory(s, c13Profile, []sim.Monitor{c13mon{stats: c.Stats, lv: authLevels{}}}, c.Stats, unit)
			if unit%2 == 1 && len(c.Stats.Violations) == 0 && cfg.Has2FA("sms") {
				// a third, directed history (generator of its own): a remembered session of an account WITHOUT SMS, the
				// visitor's own SMS login parked in it, and "codes" that carry more than a code
				r3 := Rng(c.Seed, "C13-glued", unit)
				cfg3 := cfg
				if !cfg3.Has("remember") {
					cfg3.Modules = append(append([]string(nil), cfg.Modules...), "remember")
				}
				cfg3.UseExpire, cfg3.TwoFAEmail = false, false
				if s3, err := sim.New(cfg3, r3, sim.SeedOpt{Accounts: 4, Browsers: 3, TwoFAProb: 0.5}); err == nil {
					sim.RunHistory(s3, c13GluedProfile, []sim.Monitor{c13mon{stats: c.Stats, lv: authLevels{}}}, c.Stats, unit)
				}
			}
			if unit%2 == 0 && len(c.Stats.Violations) == 0 {
				// a second history (generator of its own) with the lock module loaded: its hooks save the user
				// object the 2FA handlers worked on after every failed attempt — whatever those handlers did to
				// it in memory reaches storage. The threshold is out of reach, nobody gets locked.
				r2 := Rng(c.Seed, "C13-lock", unit)
				cfg2 := cfg
				cfg2.Modules = append(append([]string(nil), cfg.Modules...), "lock")
				cfg2.LockAfter, cfg2.LockWindow, cfg2.LockDuration = 50, 5*time.Minute, time.Minute
				s2, err := sim.New(cfg2, r2, sim.SeedOpt{Accounts: 4, Browsers: 3, TwoFAProb: 0.6})
				if err != nil {
					c.Stats.Inconclusive = append(c.Stats.Inconclusive, "world: "+err.Error())
					return
				}
				c.Stats.Count("histories-with-the-lock-module")
				sim.RunHistory(s2, c13Profile, []sim.Monitor{c13mon{stats: c.Stats, lv: authLevels{}}}, c.Stats, unit)
			}
		},
		Floors: func(t string) map[string]int {
			return map[string]int{"totp-enabled": 10, "totp-disabled": 3, "sms-enabled": 10, "regenerated": 5, "enrolment-route-gated": 20, "enrolment-route-after-email-authorisation": 10, "recovery-code-consumed": 5}
		},
		Assumptions: []string{"an SMS proof is 'a code the outbox delivered to the number in question'", "TOTP proofs: current period +-1 on the virtual clock"},
	})
}
