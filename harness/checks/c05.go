package checks

import (
	"context"
	"encoding/base64"
	"fmt"
	"net/url"
	"strings"
	"time"

	"verif/sim"
	"verif/world"
)

type c05mon struct{ stats *sim.Stats }

// expectation for one token submission, from the ledger only.
func (m c05mon) expect(s *sim.Sim, st *sim.Step) (kind string, tok *sim.MailTok, accept bool, why string) {
	a := st.Act
	switch a.Kind {
	case "confirm":
		kind = "confirm"
	case "recover_end":
		kind = "recover"
	default:
		return "", nil, false, ""
	}
	raw, err := base64.URLEncoding.DecodeString(a.Secret)
	if err != nil {
		return kind, nil, false, "undecodable"
	}
	for _, t := range s.Toks {
		if t.Kind != kind {
			continue
		}
		traw, _ := base64.URLEncoding.DecodeString(t.Token)
		if string(traw) == string(raw) {
			tok = t
		}
	}
	if strings.HasPrefix(a.Opt["litclass"], "recombined-") {
		// halves of two mailed tokens put together: never a token of anybody, whatever the bytes are
		return kind, tok, false, "recombined"
	}
	if tok == nil {
		return kind, nil, false, "unknown-bytes"
	}
	switch tok.State {
	case sim.Spent:
		return kind, tok, false, "used"
	case sim.Dead:
		return kind, tok, false, "superseded"
	case sim.Limbo:
		return kind, tok, false, "limbo"
	}
	if kind == "recover" {
		ttl := s.W.AB.Config.Modules.RecoverTokenDuration
		age := st.Rec.Now.Sub(tok.IssuedAt)
		if age > ttl {
			return kind, tok, false, "expired"
		}
		if age == ttl {
			return kind, tok, false, "boundary" // unspecified instant: not judged
		}
		if !defaultPwOK(a.Secret2) {
			return kind, tok, false, "weak-password"
		}
		if !hashable(a.Secret2) {
			return kind, tok, false, "unhashable-password"
		}
	}
	return kind, tok, true, "genuine"
}

func (m c05mon) Check(s *sim.Sim, st *sim.Step) []*sim.Violation {
	a, rec := st.Act, st.Rec
	kind, tok, accept, why := m.expect(s, st)
	if kind == "" || why == "boundary" || why == "limbo" {
		return nil
	}
	if a.Opt["extraquery"] != "" { // request deliberately broken elsewhere: rejection is the only sane outcome
		accept = false
	}
	if rec.FaultsFired > 0 && accept {
		// a backend failed while the genuine token was being used: either outcome, but it must stay
		// within the token's own account
		for _, ch := range rec.Diff() {
			if ch.PID != tok.PID {
				return []*sim.Violation{vio("C05", "faulted-use-touched-other-account", "a faulted use of %q's %s token changed %s of %q", tok.PID, kind, ch.Field, ch.PID)}
			}
		}
		m.stats.Count("faulted-genuine-use:" + kind)
		return nil
	}
	diff := rec.Diff()
	m.stats.Count("submitted:" + kind + ":" + a.Resolved)
	var vs []*sim.Violation
	if !accept {
		if len(diff) != 0 {
			vs = append(vs, vio("C05", fmt.Sprintf("rejectable-%s-token-changed-storage|%s", kind, why), "a %s token that must be rejected (%s, class %s) changed storage: %v", kind, why, a.Resolved, diff))
		}
		if st.UIDIn != st.UIDOut && st.UIDOut != "" {
			vs = append(vs, vio("C05", fmt.Sprintf("rejectable-%s-token-logged-in|%s", kind, why), "a %s token that must be rejected (%s) produced a session for %q", kind, why, st.UIDOut))
		}
		m.stats.Count("rejected:" + kind + ":" + why)
		return vs
	}
	if a.Secret != tok.Token && len(diff) == 0 {
		// another spelling of the genuine bytes: the statement does not demand that every spelling
		// is honoured, only that it is the same token — a rejection that changes nothing is fine
		m.stats.Count("respelling-rejected:" + kind)
		return vs
	}
	// must be accepted, and touch exactly tok.PID
	allowed := map[string]bool{"Confirmed": true, "ConfirmSelector": true, "ConfirmVerifier": true}
	if kind == "recover" {
		allowed = map[string]bool{"Password": true, "RecoverSelector": true, "RecoverVerifier": true, "RecoverExpiry": true, "token-": true}
		if s.Cfg.Has("lock") && s.Cfg.RecoverLogin {
			// the recover-and-login is a login: the lock module records the attempt
			allowed["AttemptCount"], allowed["LastAttempt"], allowed["Locked"] = true, true, true
		}
	}
	for _, ch := range diff {
		if ch.PID != tok.PID || !allowed[ch.Field] {
			vs = append(vs, vio("C05", fmt.Sprintf("accepted-%s-token-touched-other-state|%s", kind, ch.Field), "accepting the %s token of %q changed %s of %q (%q → %q)", kind, tok.PID, ch.Field, ch.PID, trunc(ch.Old, 30), trunc(ch.New, 30)))
		}
	}
	u := rec.After.Users[tok.PID]
	if u == nil {
		return append(vs, vio("C05", "account-vanished", "account %q vanished", tok.PID))
	}
	if kind == "confirm" {
		if !u.Confirmed || u.ConfirmSelector != "" || u.ConfirmVerifier != "" {
			vs = append(vs, vio("C05", "genuine-confirm-token-not-honoured|"+a.Resolved, "the genuine, unused confirmation token of %q (class %s) did not confirm the account and clear the stored selector/verifier (confirmed=%v selector=%q)", tok.PID, a.Resolved, u.Confirmed, trunc(u.ConfirmSelector, 12)))
		} else {
			m.stats.Count("accepted:confirm")
		}
	} else {
		if !sim.BcryptOK(u.Password, a.Secret2) || u.RecoverSelector != "" || u.RecoverVerifier != "" {
			vs = append(vs, vio("C05", "genuine-recover-token-not-honoured|"+a.Resolved, "the genuine, unexpired, unused recovery token of %q (class %s, age %s of %s) did not set the new password and clear the stored selector/verifier", tok.PID, a.Resolved, rec.Now.Sub(tok.IssuedAt), s.W.AB.Config.Modules.RecoverTokenDuration))
		} else {
			m.stats.Count("accepted:recover")
		}
	}
	return vs
}

func (m c05mon) Post(s *sim.Sim, st *sim.Step) []*sim.Violation { return nil }

func (m c05mon) Sig(s *sim.Sim, st *sim.Step) string {
	kind, _, accept, why := m.expect(s, st)
	if kind == "" {
		return ""
	}
	return fmt.Sprintf("%s/%s/%s/accept=%v/%s/%d", kind, st.Act.Resolved, why, accept, modeOf(s.Cfg), st.Rec.Status)
}

func trunc(s string, n int) string {
	if len(s) <= n {
		return s
	}
	return s[:n] + "…"
}

func litTok(kind string, b, acct int, tok, class, newpw string) *sim.Action {
	k := "confirm"
	if kind == "recover" {
		k = "recover_end"
	}
	a := act(k, b, acct, "lit", "tok", tok, "litclass", class)
	if kind == "recover" {
		a.Cls2 = "lit"
		a.Opt["newpw"] = newpw
	}
	return a
}

// mutations of one genuine token (all of which must be rejected and change nothing).
func tokenMutations(s *sim.Sim, kind string, t *sim.MailTok, tier string) [][2]string {
	raw, _ := base64.URLEncoding.DecodeString(t.Token)
	enc := base64.URLEncoding.EncodeToString
	var out [][2]string
	for bit := 0; bit < len(raw)*8; bit++ {
		c := append([]byte(nil), raw...)
		c[bit/8] ^= 1 << uint(bit%8)
		out = append(out, [2]string{enc(c), "bitflip"})
	}
	for _, n := range []int{0, 1, 31, 32, 63} {
		if n < len(raw) {
			out = append(out, [2]string{enc(raw[:n]), "truncated"})
		}
	}
	out = append(out, [2]string{enc(append(append([]byte(nil), raw...), 0)), "extended"},
		[2]string{enc(append(append([]byte(nil), raw...), raw...)), "extended"},
		[2]string{t.Token + "A", "bad-base64"}, [2]string{t.Token[:len(t.Token)-3], "bad-base64"},
		[2]string{strings.TrimRight(t.Token, "="), "unpadded"},
		[2]string{base64.StdEncoding.EncodeToString(raw[:32]) + base64.StdEncoding.EncodeToString(raw[32:]), "halves-separately-encoded"},
	)
	// splices with other accounts' tokens of the same kind
	for _, o := range s.Tokens(kind, "*", sim.Live) {
		if o.PID == t.PID {
			continue
		}
		oraw, _ := base64.URLEncoding.DecodeString(o.Token)
		if len(oraw) == 64 && len(raw) == 64 {
			out = append(out, [2]string{enc(append(append([]byte(nil), raw[:32]...), oraw[32:]...)), "splice-own-selector-other-verifier"},
				[2]string{enc(append(append([]byte(nil), oraw[:32]...), raw[32:]...)), "splice-other-selector-own-verifier"})
		}
	}
	// the other kind's token of the same account
	ok := "confirm"
	if kind == "confirm" {
		ok = "recover"
	}
	for _, o := range s.Tokens(ok, t.PID, sim.Live) {
		out = append(out, [2]string{o.Token, "other-kind-token"})
	}
	// stored forms
	if u := s.W.Store.Peek(t.PID); u != nil {
		sel, ver := u.ConfirmSelector, u.ConfirmVerifier
		if kind == "recover" {
			sel, ver = u.RecoverSelector, u.RecoverVerifier
		}
		if sel != "" {
			out = append(out, [2]string{sel, "stored-selector"}, [2]string{ver, "stored-verifier"}, [2]string{sel + ver, "stored-both"})
			if sb, err := base64.StdEncoding.DecodeString(sel); err == nil {
				vb, _ := base64.StdEncoding.DecodeString(ver)
				out = append(out, [2]string{enc(sb), "stored-selector-bytes"}, [2]string{enc(append(sb[:32:32], vb[:32]...)), "stored-hash-halves"})
			}
		}
	}
	for i := 0; i < 8; i++ {
		b := make([]byte, 64)
		s.R.Read(b)
		out = append(out, [2]string{enc(b), "random"})
	}
	return out
}

// respell returns another base64 spelling of the same 64 bytes (must be ACCEPTED).
func respell(s *sim.Sim, tok string) (string, string) {
	switch s.R.Intn(3) {
	case 0:
		// 64 bytes end in a 1-byte quantum "XY==": the low 4 bits of Y are ignored by the decoder
		i := len(tok) - 3
		const abc = "ABCDEFGHIJKLMNOPQRSTUVWXYZabcdefghijklmnopqrstuvwxyz0123456789-_"
		idx := strings.IndexByte(abc, tok[i])
		if idx >= 0 {
			alt := abc[(idx&^0xF)|((idx+1+s.R.Intn(15))&0xF)]
			r := tok[:i] + string(alt) + tok[i+1:]
			if d1, e1 := base64.URLEncoding.DecodeString(r); e1 == nil {
				d0, _ := base64.URLEncoding.DecodeString(tok)
				if string(d0) == string(d1) && r != tok {
					return r, "respelled-trailing-bits"
				}
			}
		}
	case 1:
		r := tok[:20] + "\n" + tok[20:]
		if d1, e1 := base64.URLEncoding.DecodeString(r); e1 == nil {
			d0, _ := base64.URLEncoding.DecodeString(tok)
			if string(d0) == string(d1) {
				return r, "respelled-newline"
			}
		}
	}
	return tok, "verbatim"
}

func c05Unit(c *RunCtx, unit int) {
	if unit%16 == 0 {
		// tokens of different accounts share nothing — also when many requests mint them at once
		if msg, n := tokenBurst(32, 2000); msg != "" {
			c.Stats.Violations = append(c.Stats.Violations, sim.VioRec{Violation: *vio("C05", "one-time-token-generator-under-concurrency", "%s", msg), Index: unit})
		} else {
			c.Stats.Add("tokens-generated-in-parallel", n)
		}
	}
	r := Rng(c.Seed, "C05", unit)
	mods := []string{"auth", "confirm", "recover", "logout"}
	if r.Intn(2) == 0 {
		mods = append(mods, "remember")
	}
	if r.Intn(3) == 0 {
		mods = append(mods, "register")
	}
	if r.Intn(2) == 0 {
		mods = append(mods, "lock") // its login hooks save the user of a recover-and-login a second time
	}
	cfg := world.Cfg{Modules: shuffled(r, mods), Mount: pickS(r, "/auth", ""), JSON: r.Intn(3) == 0, RecoverLogin: r.Intn(2) == 0,
		RecoverTTL: pickD(r, 24*time.Hour, 10*time.Minute, 3*time.Second), Secondary: r.Intn(3) == 0, Err500: r.Intn(2) == 0, LogoutMethod: "DELETE",
		StoreTZ: []int{0, 13 * 3600, -11 * 3600, 5*3600 + 1800}[r.Intn(4)]}
	s, err := sim.New(cfg, r, sim.SeedOpt{Accounts: 3, Browsers: 2, Unconfirmed: 0.5})
	if err != nil {
		c.Stats.Inconclusive = append(c.Stats.Inconclusive, "world: "+err.Error())
		return
	}
	mon := c05mon{c.Stats}
	bad := false
	step := func(a *sim.Action) *sim.Step {
		if bad {
			return nil
		}
		st := s.Exec(a)
		c.Stats.Evaluations++
		vs := mon.Check(s, st)
		c.Stats.Sig(mon.Sig(s, st))
		s.Learn(st)
		if len(vs) > 0 {
			bad = true
			for _, v := range vs {
				v.Step = st.I
				c.Stats.Violations = append(c.Stats.Violations, sim.VioRec{Violation: *v, Index: unit, Cfg: s.Cfg.String(), History: tail(s.Hist, 40), Detail: sim.Detail(st) + " logs=" + strings.Join(st.Rec.Logs, " | ")})
			}
		}
		return st
	}
	c.Stats.Histories++
	// issue: everybody gets a confirmation and a recovery token; some are re-issued (superseding)
	for i := range s.Accts {
		step(act("admin_startconfirm", 0, i, ""))
		step(act("recover_start", r.Intn(2), i, ""))
	}
	for i := range s.Accts {
		if r.Intn(3) == 0 {
			step(act("admin_startconfirm", 0, i, ""))
		}
		if r.Intn(3) == 0 {
			step(act("recover_start", 0, i, ""))
		}
		if r.Intn(3) == 0 {
			// a re-issue whose Save fails (the client hung up: context.Canceled; or the database is down):
			// whatever gets mailed or not, afterwards exactly the tokens the ledger has as live work
			s.W.FaultOps = map[string]error{"Save": []error{context.Canceled, context.DeadlineExceeded, errGeneric}[r.Intn(3)]}
			step(act("recover_start", 0, i, ""))
			c.Stats.Count("re-issue-with-failing-save")
		}
	}
	// recombination: every value that can be put together from the halves of two mailed tokens (of any
	// kind, any account, live or superseded) is nobody's token — at either endpoint
	{
		enc := base64.URLEncoding.EncodeToString
		var raws [][]byte
		for _, t := range s.Toks {
			if b, err := base64.URLEncoding.DecodeString(t.Token); err == nil && len(b) == 64 {
				raws = append(raws, b)
			}
		}
		for i, x := range raws {
			for j, y := range raws {
				for h := 0; h < 4; h++ {
					hx, hy := h/2, h%2
					if i == j && hx == 0 && hy == 1 {
						continue // the token itself
					}
					v := append(append([]byte(nil), x[hx*32:hx*32+32]...), y[hy*32:hy*32+32]...)
					cls := fmt.Sprintf("recombined-%s-%s", []string{"selector", "verifier"}[hx], []string{"selector", "verifier"}[hy])
					if i == j {
						cls += "-same-token"
					}
					for _, kind := range []string{"confirm", "recover"} {
						step(litTok(kind, r.Intn(2), r.Intn(len(s.Accts)), enc(v), cls, "Recomb1ned!pw"))
					}
				}
			}
		}
		c.Stats.Count("recombination-phase")
	}
	ttl := s.W.AB.Config.Modules.RecoverTokenDuration
	kinds := []string{"confirm", "recover"}
	if unit%2 == 1 {
		// the recovery links are used first, while the confirmation links are still outstanding: a recovery
		// is no confirmation, the confirmation links work afterwards
		kinds = []string{"recover", "confirm"}
		c.Stats.Count("units-recovering-before-confirming")
	}
	for _, kind := range kinds {
		for ai, ac := range s.Accts {
			if bad {
				return
			}
			live := s.Tokens(kind, ac.PID, sim.Live)
			if len(live) == 0 {
				if c.Verbose {
					for _, t := range s.Toks {
						fmt.Printf("tok kind=%s pid=%q state=%d to=%v\n", t.Kind, t.PID, t.State, t.To)
					}
					for _, m := range s.W.Mails {
						fmt.Printf("mail to=%v body=%s\n", m.Email.To, m.Email.TextBody)
					}
				}
				c.Stats.Inconclusive = append(c.Stats.Inconclusive, fmt.Sprintf("unit %d: no %s token reached the outbox for %s; hist=%v", unit, kind, ac.PID, head(s.Hist, 8)))
				return
			}
			t := live[0]
			c.Stats.Count("tokens:" + kind)
			newpw := fmt.Sprintf("Recov3red!%d", r.Intn(1e6))
			if kind == "recover" && (unit+ai)%3 == 1 && ac.Pw != "" {
				// the owner remembers the password after all and logs in (and out) while the link is outstanding:
				// an ordinary login is neither a use of the link nor a newer request — the link stays what it was
				step(act("login", 1, ai, "ok"))
				step(act("logout", 1, -9, ""))
				c.Stats.Count("logins-while-a-recovery-link-is-outstanding")
			}
			if kind == "recover" && (unit+ai)%4 == 0 && len(ac.Pw) >= 8 {
				// the owner "resets" to the password already on file: the link is used up all the same
				newpw = ac.Pw
				c.Stats.Count("recovery-to-the-current-password")
			}
			// superseded tokens of this account must be dead
			for _, d := range s.Tokens(kind, ac.PID, sim.Dead) {
				step(litTok(kind, r.Intn(2), ai, d.Token, "superseded", newpw))
			}
			muts := tokenMutations(s, kind, t, c.Tier)
			for _, mu := range muts {
				step(litTok(kind, r.Intn(2), ai, mu[0], mu[1], newpw))
			}
			final, finalCls := respell(s, t.Token)
			if kind == "recover" {
				// a weak password with the genuine token: nothing changes, token stays valid
				step(litTok(kind, 0, ai, t.Token, "genuine+weak-password", pickS(r, "short", "alllowercase1!", "NoDigits!!", "With Space1!A", "", " Lead1ng!space", "Trail1ng!space ", "\tTabbed1!pass", "Newl1ne!pass\n")))
				switch r.Intn(4) {
				case 0:
					age := ttl - time.Nanosecond - s.W.Now().Sub(t.IssuedAt)
					if age > 0 {
						step(act("advance", 0, -9, "", "d", age.String()))
						finalCls += "@ttl-1ns"
					}
				case 1:
					step(act("advance", 0, -9, "", "d", (ttl + time.Nanosecond - s.W.Now().Sub(t.IssuedAt)).String()))
					finalCls += "@ttl+1ns"
				case 2:
					step(act("advance", 0, -9, "", "d", (10 * ttl).String()))
					finalCls += "@10ttl"
				}
			}
			if r.Intn(3) == 0 {
				// a backend call of the consuming request fails: no demand on that request, but whatever
				// it did, the token must not be usable twice afterwards
				s.W.Faults = map[int]error{1 + r.Intn(4): errGeneric}
				c.Stats.Count("genuine-use-with-backend-fault")
			}
			if s.W.Faults == nil && r.Intn(3) == 0 {
				// while the genuine token is being checked (before the i-th backend call of that request)
				// another visitor's request with some well-formed but worthless token runs to completion:
				// one request's token check is none of the other's business
				junk := make([]byte, 64)
				r.Read(junk)
				jt := base64.URLEncoding.EncodeToString(junk)
				other := pickS(r, "confirm", "recover")
				at := r.Intn(3)
				s.W.Yield = map[int]func(){at: func() {
					b := world.NewBrowser(70 + r.Intn(20))
					if other == "confirm" {
						s.W.Do(b, world.Req{Method: "GET", Path: s.W.P("/confirm") + "?cnf=" + url.QueryEscape(jt)})
					} else {
						s.W.Do(b, world.Req{Method: "POST", Path: s.W.P("/recover/end"), Form: map[string]string{"token": jt, "password": "Another1!passw", "confirm_password": "Another1!passw"}})
					}
				}}
				c.Stats.Count("genuine-use-interleaved-with-another-token-check")
				finalCls += "+interleaved"
			}
			step(litTok(kind, r.Intn(2), ai, final, finalCls, newpw))
			if final != t.Token {
				step(litTok(kind, r.Intn(2), ai, t.Token, "verbatim-after-respelling", newpw))
			}
			// replays of the genuine token (same and other browser), and of its respelling
			step(litTok(kind, 0, ai, t.Token, "replay", newpw+"x"))
			step(litTok(kind, 1, ai, final, "replay", newpw+"y"))
			if kind == "recover" && (strings.Contains(finalCls, "@ttl+1ns") || strings.Contains(finalCls, "@10ttl")) && !bad {
				// the link has run out (and was refused); the owner asks for a new one while the mail system is
				// down; the old link is tried once more — whatever the failed request did, it is not valid again
				s.W.FaultOps = map[string]error{"mail": errGeneric}
				step(act("recover_start", 0, ai, ""))
				s.W.FaultOps = nil
				step(litTok(kind, 1, ai, t.Token, "expired-then-reissue-failed", newpw+"z"))
				c.Stats.Count("expired-link-after-a-failed-reissue")
			}
		}
	}
	if !bad && unit%5 == 0 {
		c.Stats.Sample(map[string]interface{}{"unit": unit, "config": s.Cfg, "first_steps": head(s.Hist, 6), "last_steps": tail(s.Hist, 8)})
	}
}

func tail(h []string, n int) []string {
	if len(h) > n {
		h = h[len(h)-n:]
	}
	return append([]string(nil), h...)
}

func head(h []string, n int) []string {
	if len(h) > n {
		h = h[:n]
	}
	return append([]string(nil), h...)
}

func init() {
	register(&Check{
		ID: "C05", Level: "exploration",
		Rule:  "per unit: 3 accounts, each issued a confirmation and a recovery token (some re-issued, superseding the first); per genuine token ~560 hostile submissions: all 512 single-bit flips of its 64 bytes, truncations to 0/1/31/32/63 bytes, extensions, broken/unpadded base64, selector/verifier splices with other accounts' tokens in both directions, every value recombined from the halves of any two mailed tokens (all ordered pairs, all four half combinations, both endpoints — must be nobody's token), the other kind's token, the stored selector/verifier strings and their bytes, random bytes, superseded tokens; then the genuine token with a weak password (nothing may change), then the genuine token (in a third of the cases with another visitor's request — some worthless but well-formed token — running to completion between two of its backend calls) — in a different base64 spelling of the same bytes in 2/3 of the cases, at age 0 / ttl-1ns / ttl+1ns / 10*ttl, with a storer that hands timestamps back in UTC or in a zone 13 h east / 11 h west / 5.5 h east of it — then replays from two browsers. Oracle per submission: accept iff decoded bytes equal a live token of that kind (and unexpired, password valid & hashable); accept must touch exactly that account's fields; reject must leave storage byte-identical. After a recovery link has run out and been refused, the owner asks for a new one while the mailer is down, and the old link is tried once more. In a third of the cases the owner logs in and out with the password between request and use of a recovery link: the link stays what it was. distinct_nontrivial = distinct (kind, mutation class, ledger verdict, mode, status) signatures.",
		Units: func(t string) int { return tierN(t, 48, 2000) },
		Run:   c05Unit,
		Floors: func(t string) map[string]int {
			return map[string]int{"recovery-to-the-current-password": 10, "accepted:confirm": 30, "accepted:recover": 10, "rejected:recover:expired": 5, "rejected:recover:weak-password": 20,
				"rejected:confirm:used": 30, "rejected:recover:used": 10, "rejected:confirm:superseded": 5, "submitted:confirm:bitflip": 10000, "submitted:recover:bitflip": 10000}
		},
		Assumptions: []string{"token equality is equality of the bytes the stdlib base64 URL decoder yields (it ignores CR/LF and trailing bits)", "recovery exactly at the expiry instant is unspecified and not judged", "in a quarter of the recoveries the owner resets to the password already on file"},
	})
}
