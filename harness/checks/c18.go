package checks

import (
	"context"
	"errors"
	"fmt"
	"strings"

	"github.com/volatiletech/authboss/v3"
	"verif/sim"
	"verif/world"
)

// a flow script: a short prelude ending in a target request
type c18script struct {
	APIMode bool // always run in JSON/API mode (also in the quick tier)
	Name    string
	Email   bool                           // needs TwoFactorEmailAuthRequired
	Build   func(s *sim.Sim) []*sim.Action // last action is the target
	Setup   func(s *sim.Sim)               // extra seeding before the script (optional)
	Slow    bool                           // target pays cost-10 bcrypt x10: fewer error kinds
}

func withCls2(a *sim.Action, c string) *sim.Action { a.Cls2 = c; return a }

// accounts: #0 plain confirmed, #1 totp, #2 sms, #3 plain (used for lock/confirm states)
var c18Scripts = []c18script{
	{Name: "login-ok", Build: func(s *sim.Sim) []*sim.Action { return []*sim.Action{act("login", 0, 0, "ok")} }},
	{Name: "login-ok-remember", Build: func(s *sim.Sim) []*sim.Action { return []*sim.Action{act("login", 0, 0, "ok", "rm", "true")} }},
	{Name: "login-wrong", Build: func(s *sim.Sim) []*sim.Action { return []*sim.Action{act("login", 0, 0, "wrong")} }},
	{Name: "login-unknown", Build: func(s *sim.Sim) []*sim.Action { return []*sim.Action{act("login", 0, -1, "wrong")} }},
	{Name: "login-totp-parks", Build: func(s *sim.Sim) []*sim.Action { return []*sim.Action{act("login", 0, 1, "ok")} }},
	{Name: "login-sms-parks", Build: func(s *sim.Sim) []*sim.Action { return []*sim.Action{act("login", 0, 2, "ok")} }},
	{Name: "login-locked", Build: func(s *sim.Sim) []*sim.Action {
		return []*sim.Action{act("admin_lock", 0, 3, ""), act("login", 0, 3, "ok")}
	}},
	{Name: "login-page", Build: func(s *sim.Sim) []*sim.Action { return []*sim.Action{act("get", 0, -9, "", "route", "/login")} }},
	{Name: "otp-add", Build: func(s *sim.Sim) []*sim.Action {
		return []*sim.Action{act("login", 0, 0, "ok"), act("otp_add", 0, -9, "")}
	}},
	{Name: "otp-clear", Build: func(s *sim.Sim) []*sim.Action {
		return []*sim.Action{act("login", 0, 0, "ok"), act("otp_add", 0, -9, ""), act("otp_clear", 0, -9, "")}
	}},
	{Name: "otp-login-ok", Build: func(s *sim.Sim) []*sim.Action {
		return []*sim.Action{act("login", 0, 0, "ok"), act("otp_add", 0, -9, ""), act("logout", 0, -9, ""), act("otp_login", 1, 0, "ok")}
	}},
	{Name: "otp-login-wrong", Build: func(s *sim.Sim) []*sim.Action { return []*sim.Action{act("otp_login", 1, 0, "wrong")} }},
	{Name: "logout", Build: func(s *sim.Sim) []*sim.Action {
		return []*sim.Action{act("login", 0, 0, "ok", "rm", "true"), act("logout", 0, -9, "")}
	}},
	{Name: "register-new", Build: func(s *sim.Sim) []*sim.Action { return []*sim.Action{withCls2(act("register", 0, -1, ""), "fresh")} }},
	{Name: "register-existing", Build: func(s *sim.Sim) []*sim.Action { return []*sim.Action{withCls2(act("register", 0, 0, ""), "fresh")} }},
	{Name: "recover-start", Build: func(s *sim.Sim) []*sim.Action { return []*sim.Action{act("recover_start", 0, 0, "")} }},
	{Name: "recover-start-unknown", Build: func(s *sim.Sim) []*sim.Action { return []*sim.Action{act("recover_start", 0, -1, "")} }},
	{Name: "recover-end", Build: func(s *sim.Sim) []*sim.Action {
		return []*sim.Action{act("login", 1, 0, "ok", "rm", "true"), act("recover_start", 0, 0, ""), withCls2(act("recover_end", 0, 0, "current"), "fresh")}
	}},
	{Name: "recover-end-bad-token", Build: func(s *sim.Sim) []*sim.Action {
		return []*sim.Action{act("recover_start", 0, 0, ""), withCls2(act("recover_end", 0, 0, "bitflip"), "fresh")}
	}},
	{Name: "confirm", Build: func(s *sim.Sim) []*sim.Action {
		return []*sim.Action{act("admin_startconfirm", 0, 3, ""), act("confirm", 0, 3, "current")}
	}},
	{Name: "confirm-bad-token", Build: func(s *sim.Sim) []*sim.Action {
		return []*sim.Action{act("admin_startconfirm", 0, 3, ""), act("confirm", 0, 3, "bitflip")}
	}},
	{Name: "oauth2-start", Build: func(s *sim.Sim) []*sim.Action {
		return []*sim.Action{act("oauth_start", 0, -9, "", "provider", "alpha", "rm", "true")}
	}},
	{Name: "oauth2-callback", Build: func(s *sim.Sim) []*sim.Action {
		return []*sim.Action{act("oauth_start", 0, -9, "", "provider", "alpha", "rm", "true"), withCls2(act("oauth_cb", 0, 0, "own", "provider", "alpha"), "validcode")}
	}},
	{Name: "oauth2-callback-provider-error", Build: func(s *sim.Sim) []*sim.Action {
		return []*sim.Action{act("oauth_start", 0, -9, "", "provider", "alpha"), withCls2(act("oauth_cb", 0, 0, "own", "provider", "alpha"), "error")}
	}},
	{Name: "remember-reauth", Build: func(s *sim.Sim) []*sim.Action {
		return []*sim.Action{act("login", 0, 0, "ok", "rm", "true"), act("dropsid", 0, -9, ""), act("visit", 0, -9, "", "route", "/public")}
	}},
	{Name: "remember-dead-cookie", Build: func(s *sim.Sim) []*sim.Action {
		return []*sim.Action{act("login", 0, 0, "ok", "rm", "true"), act("dropsid", 0, -9, ""), act("visit", 0, -9, "", "route", "/public"), act("steal", 1, -9, "spent"), act("visit", 1, -9, "", "route", "/public")}
	}},
	{Name: "protected-route-logged-in", Build: func(s *sim.Sim) []*sim.Action {
		return []*sim.Action{act("login", 0, 0, "ok"), act("visit", 0, -9, "", "route", "/protected/plain")}
	}},
	{Name: "protected-route-bare-logged-in", Build: func(s *sim.Sim) []*sim.Action {
		return []*sim.Action{act("login", 0, 0, "ok"), act("visit", 0, -9, "", "route", "/protected/bare")}
	}},
	{Name: "protected-route-anonymous", Build: func(s *sim.Sim) []*sim.Action {
		return []*sim.Action{act("visit", 0, -9, "", "route", "/protected/plain")}
	}},
	{Name: "locked-session-on-a-guarded-route", APIMode: true, Build: func(s *sim.Sim) []*sim.Action {
		return []*sim.Action{act("login", 0, 0, "ok"), act("admin_lock", 0, 0, ""), act("visit", 0, -9, "", "route", "/protected/lockonly")}
	}},
	{Name: "unconfirmed-session-on-a-guarded-route", APIMode: true, Build: func(s *sim.Sim) []*sim.Action {
		return []*sim.Action{act("login", 0, 0, "ok"), act("admin_startconfirm", 0, 0, ""), act("visit", 0, -9, "", "route", "/protected/confirmonly")}
	}},
	{Name: "totp-validate-ok", Build: func(s *sim.Sim) []*sim.Action {
		return []*sim.Action{act("login", 0, 1, "ok"), act("totp_validate", 0, -9, "ok")}
	}},
	{Name: "totp-validate-wrong", Build: func(s *sim.Sim) []*sim.Action {
		return []*sim.Action{act("login", 0, 1, "ok"), act("totp_validate", 0, -9, "wrong")}
	}},
	{Name: "totp-validate-recovery", Build: func(s *sim.Sim) []*sim.Action {
		return []*sim.Action{act("login", 0, 1, "ok"), act("totp_validate", 0, -9, "recovery")}
	}},
	{Name: "sms-validate-ok", Build: func(s *sim.Sim) []*sim.Action {
		return []*sim.Action{act("login", 0, 2, "ok"), act("sms_validate", 0, -9, "ok")}
	}},
	{Name: "sms-validate-wrong", Build: func(s *sim.Sim) []*sim.Action {
		return []*sim.Action{act("login", 0, 2, "ok"), act("sms_validate", 0, -9, "wrong")}
	}},
	{Name: "sms-validate-resend", Build: func(s *sim.Sim) []*sim.Action {
		return []*sim.Action{act("login", 0, 2, "ok"), act("advance", 0, -9, "", "d", "11s"), act("sms_validate", 0, -9, "empty")}
	}},
	{Name: "sms-login-after-own-unfinished-sms-login", Setup: func(s *sim.Sim) { s.SetTwoFA(3, false, true) }, Build: func(s *sim.Sim) []*sim.Action {
		// an unfinished own SMS login (the code went to the own phone), then — outside the resend limit —
		// the victim's password in the same session: the request that may fail
		return []*sim.Action{act("login", 0, 3, "ok"), act("advance", 0, -9, "", "d", "11s"), act("login", 0, 2, "ok")}
	}},
	{Name: "sms-validate-recovery", Build: func(s *sim.Sim) []*sim.Action {
		return []*sim.Action{act("login", 0, 2, "ok"), act("sms_validate", 0, -9, "recovery")}
	}},
	{Name: "totp-setup", Build: func(s *sim.Sim) []*sim.Action {
		return []*sim.Action{act("login", 0, 0, "ok"), act("totp_setup", 0, -9, "")}
	}},
	{Name: "totp-confirm", Slow: true, Build: func(s *sim.Sim) []*sim.Action {
		return []*sim.Action{act("login", 0, 0, "ok"), act("totp_setup", 0, -9, ""), act("totp_confirm", 0, -9, "ok")}
	}},
	{Name: "totp-remove", Build: func(s *sim.Sim) []*sim.Action {
		return []*sim.Action{act("login", 0, 1, "ok"), act("totp_validate", 0, -9, "recovery"), act("totp_remove", 0, -9, "ok")}
	}},
	{Name: "sms-setup", Build: func(s *sim.Sim) []*sim.Action {
		return []*sim.Action{act("login", 0, 0, "ok"), act("sms_setup", 0, -9, "own")}
	}},
	{Name: "sms-confirm", Slow: true, Build: func(s *sim.Sim) []*sim.Action {
		return []*sim.Action{act("login", 0, 0, "ok"), act("sms_setup", 0, -9, "own"), act("sms_confirm", 0, -9, "ok")}
	}},
	{Name: "sms-remove", Build: func(s *sim.Sim) []*sim.Action {
		return []*sim.Action{act("login", 0, 2, "ok"), act("sms_validate", 0, -9, "ok"), act("advance", 0, -9, "", "d", "11s"), act("sms_remove", 0, -9, "empty"), act("sms_remove", 0, -9, "ok")}
	}},
	{Name: "recovery-regen", Slow: true, Build: func(s *sim.Sim) []*sim.Action {
		return []*sim.Action{act("login", 0, 1, "ok"), act("totp_validate", 0, -9, "ok"), act("regen", 0, -9, "")}
	}},
	{Name: "2fa-email-verify-start", Email: true, Build: func(s *sim.Sim) []*sim.Action {
		return []*sim.Action{act("login", 0, 0, "ok"), act("ev_start", 0, -9, "", "kind", "totp")}
	}},
	{Name: "2fa-email-verify-end", Email: true, Build: func(s *sim.Sim) []*sim.Action {
		return []*sim.Action{act("login", 0, 0, "ok"), act("ev_start", 0, -9, "", "kind", "totp"), act("ev_end", 0, -9, "current", "kind", "totp")}
	}},
	{Name: "programmatic-update-password", Build: func(s *sim.Sim) []*sim.Action {
		return []*sim.Action{act("login", 0, 0, "ok", "rm", "true"), withCls2(act("admin_updatepw", 0, 0, ""), "fresh")}
	}},
	{Name: "programmatic-lock", Build: func(s *sim.Sim) []*sim.Action { return []*sim.Action{act("admin_lock", 0, 0, "")} }},
	{Name: "programmatic-unlock", Build: func(s *sim.Sim) []*sim.Action {
		return []*sim.Action{act("admin_lock", 0, 0, ""), act("admin_unlock", 0, 0, "")}
	}},
	{Name: "programmatic-start-confirmation", Build: func(s *sim.Sim) []*sim.Action { return []*sim.Action{act("admin_startconfirm", 0, 0, "")} }},
}

var errGeneric = errors.New("backend unavailable")

func c18Sim(c *RunCtx, script c18script, err500, jsonMode bool, seedUnit int) (*sim.Sim, error) {
	r := Rng(c.Seed, "C18", seedUnit)
	cfg := world.Cfg{Modules: []string{"auth", "confirm", "lock", "logout", "oauth2", "otp", "recover", "register", "remember"}, TwoFA: []string{"totp", "sms"},
		Mount: "/auth", JSON: jsonMode, RecoverLogin: true, OneTimeTOTP: true, OAuth2Confirmed: true, LockAfter: 3, Err500: err500, LogoutMethod: "DELETE",
		Providers: []string{"alpha"}, TwoFAEmail: script.Email, ProfileKeys: []string{"name"}}
	s, err := sim.New(cfg, r, sim.SeedOpt{Accounts: 4, Browsers: 2})
	if err != nil {
		return nil, err
	}
	s.SetTwoFA(1, true, false)
	s.SetTwoFA(2, false, true)
	if script.Setup != nil {
		script.Setup(s)
	}
	return s, nil
}

// c18Run executes the script; fault != nil is injected into call #k of the target request.
// It returns the steps, and the monitors' verdicts on the post-fault probes.
func c18Run(c *RunCtx, script c18script, err500, jsonMode bool, unit, k int, fault error, more ...int) (target *sim.Step, s *sim.Sim, vs []*sim.Violation, setupErr string) {
	s, err := c18Sim(c, script, err500, jsonMode, unit)
	if err != nil {
		return nil, nil, nil, err.Error()
	}
	acts := script.Build(s)
	for i, a := range acts {
		last := i == len(acts)-1
		if last && fault != nil {
			s.W.Faults = map[int]error{k: fault}
			for _, k2 := range more {
				s.W.Faults[k2] = fault
			}
		}
		st := s.Exec(a)
		if last {
			target = st
		}
		if !last && (st.Rec.Panic != "" || st.Rec.Status >= 500) {
			return nil, nil, nil, fmt.Sprintf("prelude step %s failed: %s %s", a.Desc(), st.Outcome, st.Rec.HandlerErr)
		}
		s.Learn(st)
	}
	if fault == nil {
		return target, s, nil, ""
	}
	// a failed request must not leave secrets behind in recoverable form either (C17's scan)
	c17 := &c17mon{stats: c.Stats, typed: map[string]string{}}
	vs = append(vs, c17.Post(s, target)...)
	// (4) only-invalidates: re-present every credential the ledger holds as spent / dead
	c1, c2, c5, c12 := c01mon{c.Stats}, c02mon{c.Stats}, c05mon{c.Stats}, &c12mon{stats: c.Stats, lastTOTP: map[string]string{}}
	probe := func(a *sim.Action) {
		st := s.Exec(a)
		c.Stats.Count("post-fault-probes")
		vs = append(vs, c1.Check(s, st)...)
		vs = append(vs, c2.Check(s, st)...)
		vs = append(vs, c5.Check(s, st)...)
		vs = append(vs, c12.Check(s, st)...)
		s.Learn(st)
		vs = append(vs, c17.Post(s, st)...)
	}
	// a login parked at the SMS step in the faulted browser: codes that were sent to OTHER phones (before
	// or during the failed request) do not complete it
	if pend := s.W.Sess.Of(s.Br[0].B)["sms_pending"]; pend != "" {
		for i, ac := range s.Accts {
			if ac.PID != pend && ac.Phone != "" && s.SMSSentToAny(ac.Phone) {
				probe(act("sms_validate", 0, -9, "ownsms", "own", fmt.Sprint(i)))
				c.Stats.Count("post-fault-sms-probes")
			}
		}
	}
	for i, ac := range s.Accts {
		for _, o := range ac.OTPs {
			if o.State == sim.Spent || o.State == sim.Dead {
				probe(act("otp_login", 1, i, "spent"))
				break
			}
		}
		if len(ac.OldPw) > 0 {
			probe(act("dropsid", 1, -9, ""))
			probe(act("login", 1, i, "stale"))
		}
	}
	for _, ck := range s.Cookies {
		if ck.State == sim.Spent || ck.State == sim.Dead {
			probe(act("dropsid", 1, -9, ""))
			probe(act("steal", 1, -9, "raw", "val", ck.Val))
			probe(act("visit", 1, -9, "", "route", "/public"))
		}
	}
	for _, t := range s.Toks {
		if (t.State == sim.Spent || t.State == sim.Dead) && t.Kind != "ev" {
			idx := 0
			if ac := s.AcctByPID(t.PID); ac != nil {
				idx = ac.Idx
			}
			probe(litTok(t.Kind, 1, idx, t.Token, "replay", "Replayed1!pw"))
		}
	}
	return target, s, vs, ""
}

// consumption reports whether the k-th faultable call of the fault-free target request is the
// durable consumption of a one-time credential, and for whom.
func consumption(script string, calls []world.Call, k int) bool {
	c := calls[k]
	switch {
	case c.Op == "UseRememberToken":
		return true
	case c.Op == "Save" && (script == "otp-login-ok" || script == "totp-validate-recovery" || script == "sms-validate-recovery" || script == "totp-validate-ok"):
		// the first Save of these flows removes the OTP / recovery code / records the TOTP code
		for i := 0; i < k; i++ {
			if calls[i].Op == "Save" {
				return false
			}
		}
		return true
	}
	return false
}

func faultableCalls(rec *world.Rec) []world.Call {
	var out []world.Call
	for _, c := range rec.Calls {
		if c.Op != "compare" {
			out = append(out, c)
		}
	}
	return out
}

func successMarkers(rec *world.Rec) bool {
	if rec.Status >= 400 || rec.Status < 200 || rec.HandlerErr != "" {
		return false
	}
	if rec.JSON != nil {
		if st, _ := rec.JSON["status"].(string); st == "success" {
			return true
		}
	}
	if _, ok := sim.SessPut(rec, "flash_success"); ok {
		return true
	}
	return false
}

func c18Unit(c *RunCtx, unit int) {
	// unit → (script, error handler kind, mode)
	nS := len(c18Scripts)
	script := c18Scripts[unit%nS]
	err500 := (unit/nS)%2 == 1
	jsonMode := (unit/(2*nS))%2 == 1 || script.APIMode // (the guard's redirect goes through the renderer only for API requests)
	c.Stats.Histories++
	base, _, _, serr := c18Run(c, script, err500, jsonMode, unit, -1, nil)
	if serr != "" {
		c.Stats.Inconclusive = append(c.Stats.Inconclusive, script.Name+": "+serr)
		return
	}
	if base.Rec.Panic != "" {
		c.Stats.Inconclusive = append(c.Stats.Inconclusive, script.Name+": fault-free run panicked: "+base.Rec.Panic)
		return
	}
	calls := faultableCalls(base.Rec)
	baseUID := base.UIDOut
	c.Stats.Count("scripts")
	var sites []string
	for k, call := range calls {
		if call.Op == "mail" || call.Op == "mailrender" {
			continue // the mailer is not among the backends the property names
		}
		kinds := []error{errGeneric}
		if !script.Slow || c.Tier == "thorough" {
			switch call.Op {
			case "Load", "Save", "LoadByConfirmSelector", "LoadByRecoverSelector":
				kinds = append(kinds, authboss.ErrUserNotFound)
				if call.Op == "Save" {
					kinds = append(kinds, context.Canceled) // the client hung up while the row was being written
				}
			case "UseRememberToken":
				kinds = append(kinds, authboss.ErrTokenNotFound)
			case "Create":
				kinds = append(kinds, authboss.ErrUserFound)
			}
		}
		for _, fe := range kinds {
			kindName := map[error]string{errGeneric: "generic", authboss.ErrUserNotFound: "not-found", authboss.ErrTokenNotFound: "token-not-found", authboss.ErrUserFound: "user-found", context.Canceled: "context-canceled"}[fe]
			st, s, pvs, serr := c18Run(c, script, err500, jsonMode, unit, k, fe)
			if serr != "" {
				c.Stats.Inconclusive = append(c.Stats.Inconclusive, script.Name+": "+serr)
				return
			}
			c.Stats.Evaluations++
			rec := st.Rec
			site := fmt.Sprintf("%s#%d:%s", script.Name, k, call.Op)
			handler := map[bool]string{false: "silent-handler", true: "500-handler"}[err500]
			where := "middleware"
			if rec.Kind == "admin" {
				where = "programmatic"
			} else if rec.HandlerRan && call.Seq > base.Rec.HandlerStart && base.Rec.HandlerRan {
				where = "route-handler"
			}
			c.Stats.Sig(fmt.Sprintf("%s/%s/%s/%s/%s → %d err=%v", site, kindName, handler, modeOf(s.Cfg), where, rec.Status, rec.HandlerErr != "" || rec.AdminErr != ""))
			report := func(v *sim.Violation) {
				c.Stats.Violations = append(c.Stats.Violations, sim.VioRec{Violation: *v, Index: unit, Cfg: s.Cfg.String(), History: tail(s.Hist, 12),
					Detail: fmt.Sprintf("fault %s injected at call #%d (%s %s) of the target; fault-free calls: %v\n%s\npanic stack: %s", kindName, k, call.Op, call.Arg, calls, sim.Detail(st), trunc(rec.PanicStack, 1500))})
			}
			if rec.FaultsFired == 0 {
				c.Stats.Count("fault-not-reached")
				continue
			}
			c.Stats.Count("faults-injected")
			// (1) never a panic
			if rec.Panic != "" {
				report(vio("C18", fmt.Sprintf("panic|%s|%s|%s", script.Name, call.Op, kindName), "%s: a %s error from %s made the request panic: %s", script.Name, kindName, call.Op, trunc(rec.Panic, 160)))
				continue
			}
			// (1') never weaken security state: whatever failed, the page behind the lock / confirm guard was
			// not served to a session whose user is locked / unconfirmed
			if g, ok := guardedRoutes[rec.Probe.Route]; ok && rec.Probe.Ran {
				if u := rec.Before.Users[rec.Probe.UID]; u != nil && ((g[0] && u.Locked.After(rec.Now)) || (g[1] && !u.Confirmed)) {
					report(vio("C18", fmt.Sprintf("guarded-page-served-after-fault|%s|%s", script.Name, call.Op), "%s: with a %s failure at %s the page behind the lock/confirm guard was served to %q (locked=%v confirmed=%v)", script.Name, kindName, call.Op, u.PID, u.Locked.After(rec.Now), u.Confirmed))
					continue
				}
			}
			erroredOut := rec.HandlerErr != "" || rec.Status >= 500 || rec.AdminErr != ""
			// (2) a failed write the flow relied on must not be reported as success
			if call.Write && fe == errGeneric && (where == "route-handler" || where == "programmatic") {
				if !erroredOut {
					report(vio("C18", fmt.Sprintf("write-failure-not-an-error-outcome|%s|%s", script.Name, call.Op), "%s: %s failed (%s) but the request did not end with an error outcome (status %d, location %q)", script.Name, call.Op, kindName, rec.Status, rec.Location))
					continue
				}
			}
			if call.Write && fe == errGeneric && successMarkers(rec) && call.Op != "sms" {
				report(vio("C18", fmt.Sprintf("success-reported-for-unsaved-change|%s|%s", script.Name, call.Op), "%s: %s failed but the response reports success (status %d %v)", script.Name, call.Op, rec.Status, rec.JSON["status"]))
				continue
			}
			if (call.Op == "sms" || call.Op == "render" || call.Op == "hash") && where == "route-handler" && !erroredOut {
				report(vio("C18", fmt.Sprintf("backend-error-swallowed|%s|%s", script.Name, call.Op), "%s: a %s failure did not end the request with an error outcome (status %d)", script.Name, call.Op, rec.Status))
				continue
			}
			// (3) no session on an unsaved consumption
			if consumption(script.Name, calls, k) && fe == errGeneric {
				c.Stats.Count("consumption-faults")
				if st.UIDOut != "" && st.UIDOut != st.UIDIn && st.UIDOut == baseUID {
					report(vio("C18", fmt.Sprintf("session-issued-though-consumption-not-saved|%s|%s", script.Name, call.Op), "%s: %s (the consumption of the one-time credential) failed, yet the session names %q", script.Name, call.Op, st.UIDOut))
					continue
				}
			}
			// (4) nothing spent or rejected became acceptable
			for _, v := range pvs {
				if v.Prop == "C17" {
					v.Sig = "C18|secret-left-in-recoverable-form-after-fault|" + script.Name + "|" + call.Op + "|" + strings.TrimPrefix(v.Sig, "C17|")
					v.Prop = "C18"
					report(v)
					continue
				}
				v.Sig = "C18|spent-credential-accepted-after-fault|" + script.Name + "|" + call.Op + "|" + strings.TrimPrefix(v.Sig, v.Prop+"|")
				v.Prop = "C18"
				report(v)
			}
			sites = append(sites, site+"/"+kindName)
		}
	}
	// thorough: every PAIR of call indices failing together (generic errors); oracles: no panic, no
	// session on an unsaved consumption, nothing spent becomes acceptable, no secret left in clear
	if c.Tier == "thorough" {
		for k1 := 0; k1 < len(calls); k1++ {
			for k2 := k1 + 1; k2 < len(calls); k2++ {
				if calls[k1].Op == "mail" || calls[k1].Op == "mailrender" || calls[k2].Op == "mail" || calls[k2].Op == "mailrender" {
					continue
				}
				st, s, pvs, serr := c18Run(c, script, err500, jsonMode, unit, k1, errGeneric, k2)
				if serr != "" {
					c.Stats.Inconclusive = append(c.Stats.Inconclusive, script.Name+": "+serr)
					return
				}
				c.Stats.Evaluations++
				c.Stats.Count("double-faults-injected")
				rec := st.Rec
				c.Stats.Sig(fmt.Sprintf("%s#%d:%s+#%d:%s/double → %d err=%v", script.Name, k1, calls[k1].Op, k2, calls[k2].Op, rec.Status, rec.HandlerErr != "" || rec.AdminErr != ""))
				report := func(v *sim.Violation) {
					c.Stats.Violations = append(c.Stats.Violations, sim.VioRec{Violation: *v, Index: unit, Cfg: s.Cfg.String(), History: tail(s.Hist, 12),
						Detail: fmt.Sprintf("faults injected at calls #%d (%s) and #%d (%s); fault-free calls: %v\n%s", k1, calls[k1].Op, k2, calls[k2].Op, calls, sim.Detail(st))})
				}
				if rec.Panic != "" {
					report(vio("C18", fmt.Sprintf("panic|%s|%s+%s|double", script.Name, calls[k1].Op, calls[k2].Op), "%s: errors from %s and %s made the request panic: %s", script.Name, calls[k1].Op, calls[k2].Op, trunc(rec.Panic, 160)))
					continue
				}
				if (consumption(script.Name, calls, k1) || consumption(script.Name, calls, k2)) && st.UIDOut != "" && st.UIDOut != st.UIDIn && st.UIDOut == baseUID {
					report(vio("C18", fmt.Sprintf("session-issued-though-consumption-not-saved|%s|double", script.Name), "%s: consumption failed (double fault) yet the session names %q", script.Name, st.UIDOut))
					continue
				}
				for _, v := range pvs {
					v.Sig = "C18|after-double-fault|" + script.Name + "|" + strings.TrimPrefix(v.Sig, v.Prop+"|")
					v.Prop = "C18"
					report(v)
				}
			}
		}
	}
	if unit%nS == 0 || unit%7 == 0 {
		c.Stats.Sample(map[string]interface{}{"script": script.Name, "error_handler_500": err500, "mode": map[bool]string{false: "form", true: "json"}[jsonMode], "backend_calls_of_target": fmt.Sprint(calls), "fault_sites_run": sites})
	}
}

func init() {
	register(&Check{
		ID: "C18", Level: "fault_enumeration", Exhaustive: true,
		Rule:  "49 flow scripts (every route of every module in its main states, the remember / access / lock / confirm middlewares, the programmatic UpdatePassword, Lock, Unlock, StartConfirmation) x {silent default error handler, handler that writes a 500} (x form/JSON in the thorough tier). Each script is first run fault-free to record the ordered backend calls of its target request (storer methods, hasher, view renderer, SMS sender); then for EVERY call index and every applicable error kind (generic; not-found on loads/saves; token-not-found; user-found) the world is rebuilt, the prelude replayed and that one fault injected. Oracles: no panic; a failed write inside a route handler or programmatic call ends in an error outcome (handler error / 5xx / returned error) and never shows success markers; SMS/renderer/hasher failures end in an error outcome; no session for the target account when the faulted call was the consumption of a one-time credential; afterwards every credential the ledger holds as spent or dead is presented again and judged by the C01/C05/C12 monitors. exhaustive=true refers to the call-index x error-kind grid of the listed scripts. Scripts with a lock / confirm guard in front of a locked / unconfirmed session run in API mode (the guard's redirect goes through the renderer); rule (1'): whatever failed, the guarded page is not served to such a user. distinct_nontrivial = distinct (script#call:op, error kind, handler kind, mode, where, outcome) signatures.",
		Units: func(t string) int { return tierN(t, 2*len(c18Scripts), 4*len(c18Scripts)) },
		Run:   c18Unit,
		Floors: func(t string) map[string]int {
			return map[string]int{"scripts": 2 * len(c18Scripts), "faults-injected": 300, "consumption-faults": 8, "post-fault-probes": 40}
		},
		Assumptions: []string{"the mailer and mail renderer are not among the backends the property names and are not faulted", "meaningful not-found answers (unknown user at login, dead remember token) are judged only for 'no panic'"},
	})
}
