package checks

import (
	crand "crypto/rand"
	"encoding/base64"
	"fmt"
	"io"
	"net/http"
	"net/url"
	"runtime"
	"strings"
	"sync"
	"time"

	"verif/sim"
	"verif/world"
)

// flowOf maps a request path to the login-type flow it addresses ("" if none).
func flowOf(s *sim.Sim, rec *world.Rec) string {
	if rec.Kind != "http" {
		return ""
	}
	p := strings.SplitN(rec.Target, "?", 2)[0]
	p = strings.TrimPrefix(p, s.Cfg.Mount)
	switch {
	case p == "/login" && rec.Method == "POST":
		return "login"
	case p == "/otp/login" && rec.Method == "POST":
		return "otp_login"
	case p == "/recover/end" && rec.Method == "POST":
		return "recover_end"
	case p == "/2fa/totp/validate" && rec.Method == "POST":
		return "totp_validate"
	case p == "/2fa/sms/validate" && rec.Method == "POST":
		return "sms_validate"
	case strings.HasPrefix(p, "/oauth2/callback/"):
		return "oauth_cb"
	case p == "/register" && rec.Method == "POST":
		return "register"
	}
	return ""
}

func rememberJustifies(s *sim.Sim, st *sim.Step, U string) bool {
	rec := st.Rec
	if s.RememberActive() && rec.SessIn["uid"] == "" {
		if c := s.Cookies[rec.CookiesIn["rm"]]; c != nil && (c.State == sim.Live || c.State == sim.Limbo) && c.PID == U {
			return true
		}
	}
	return false
}

func liveRecovery(s *sim.Sim, pid, code string) bool {
	if code == "" {
		return false
	}
	if ac := s.AcctByPID(pid); ac != nil {
		for _, c := range ac.Recov {
			if c.Val == code && c.State == sim.Live {
				return true
			}
		}
	}
	return false
}

// secondFactorProven reports which proof of U's second factor a well-formed validate request carried
// ("" if none): a currently acceptable TOTP code of U's secret, a code the SMS outbox delivered to U's
// number, or one of U's unused recovery codes.
func secondFactorProven(s *sim.Sim, st *sim.Step, U, flow string) string {
	a, rec := st.Act, st.Rec
	u := rec.Before.Users[U]
	if u == nil || a.Kind != flow {
		return ""
	}
	switch flow {
	case "totp_validate":
		if s.Cfg.Has2FA("totp") && u.TOTPSecretKey != "" && sim.TOTPOK(u.TOTPSecretKey, a.Secret) && a.Secret2 == "" {
			return "totp-code"
		}
	case "sms_validate":
		if s.Cfg.Has2FA("sms") && a.Secret2 == "" && s.SMSSentTo(u.SMSPhone, a.Secret) {
			return "sms-code"
		}
	default:
		return ""
	}
	if liveRecovery(s, U, a.Secret2) {
		return "recovery"
	}
	return ""
}

// cookiePID is the account a remember cookie value names (pid ';' 32-byte nonce, base64).
func cookiePID(val string) string {
	b, err := base64.StdEncoding.DecodeString(val)
	if err != nil {
		if b, err = base64.URLEncoding.DecodeString(val); err != nil {
			return ""
		}
	}
	if len(b) < 34 || b[len(b)-33] != ';' {
		return ""
	}
	return string(b[:len(b)-33])
}

type c02mon struct{ stats *sim.Stats }

func (m c02mon) Check(s *sim.Sim, st *sim.Step) []*sim.Violation {
	a, rec := st.Act, st.Rec
	flow := flowOf(s, rec)
	if flow == "" || flow == "oauth_cb" || flow == "register" {
		return nil
	}
	// the primary step of an account with a second factor only parks the login: it hands out nothing
	// that stands for a session — in particular no remember-me cookie (which would re-authenticate the
	// browser later without any second factor)
	if flow == "login" || flow == "otp_login" || flow == "recover_end" {
		if pid, ok := s.PrimaryValid(st); ok && rec.FaultsFired == 0 {
			if u := rec.Before.Users[pid]; has2FA(s.Cfg, u) && st.UIDOut != pid {
				if c := sim.IssuedCookie(rec); c != "" && cookiePID(c) == pid { // (not the rotation of somebody else's cookie by the middleware)
					return []*sim.Violation{vio("C02", "remember-cookie-issued-at-primary-step|"+flow, "the %s step of %q, which has a second factor enabled, set a remember-me cookie although the login is only parked", flow, pid)}
				}
				if len(rec.After.Tokens[pid]) > len(rec.Before.Tokens[pid]) {
					return []*sim.Violation{vio("C02", "remember-token-stored-at-primary-step|"+flow, "the %s step of %q, which has a second factor enabled, stored a remember token although the login is only parked", flow, pid)}
				}
				m.stats.Count("primary-step-parked-without-cookie")
			}
		}
	}
	U := st.UIDOut
	if U == "" || U == st.UIDIn {
		return nil
	}
	u := rec.Before.Users[U]
	if !has2FA(s.Cfg, u) {
		return nil
	}
	if rememberJustifies(s, st, U) {
		return nil
	}
	switch flow {
	case "login", "otp_login", "recover_end":
		return []*sim.Violation{vio("C02", "primary-yields-session|"+flow, "%s produced a logged-in session for %q although it has a second factor enabled (totp=%v sms=%v)", flow, U, u.TOTPSecretKey != "", u.SMSPhone != "")}
	case "totp_validate":
		if how := secondFactorProven(s, st, U, flow); how != "" {
			m.stats.Count("2fa-complete:" + how)
			return nil
		}
		return []*sim.Violation{vio("C02", "totp-validate-without-valid-code|"+a.Resolved, "pending login of %q completed at the TOTP step by a request whose code is neither a current code of its secret nor one of its unused recovery codes (class %s)", U, a.Resolved)}
	case "sms_validate":
		if how := secondFactorProven(s, st, U, flow); how != "" {
			m.stats.Count("2fa-complete:" + how)
			return nil
		}
		return []*sim.Violation{vio("C02", "sms-validate-code-not-sent-to-own-number|"+a.Resolved, "pending login of %q (registered number %q) completed at the SMS step with code %q, which the SMS outbox never delivered to that number, and without an unused recovery code (class %s)", U, u.SMSPhone, a.Secret, a.Resolved)}
	}
	return nil
}

func (m c02mon) Post(s *sim.Sim, st *sim.Step) []*sim.Violation { return nil }

func (m c02mon) Sig(s *sim.Sim, st *sim.Step) string {
	flow := flowOf(s, st.Rec)
	if flow == "" {
		return ""
	}
	pid := st.Act.PID
	if strings.HasSuffix(flow, "_validate") {
		pid = subjectOf(s, st.Rec, strings.SplitN(flow, "_", 2)[0])
	}
	u := st.Rec.Before.Users[pid]
	if !has2FA(s.Cfg, u) {
		return ""
	}
	out := "uid-same"
	if st.UIDIn != st.UIDOut {
		out = "uid-changed"
	}
	pend := ""
	for _, k := range []string{"totp_pending", "sms_pending"} {
		if st.Rec.SessOut[k] != "" && st.Rec.SessOut[k] != st.Rec.SessIn[k] {
			pend += "+" + k
		}
	}
	return fmt.Sprintf("%s/%s/%s/%s/%s/%s%s", flow, st.Act.Resolved, acctClass(s, st.Rec.Before, pid), sessClass(st.Rec.SessIn), modeOf(s.Cfg), out, pend)
}

// findAcct returns the index of a ledger account whose stored record satisfies f (-1 if none),
// skipping the indices in not.
func findAcct(s *sim.Sim, f func(u *world.User) bool, not ...int) int {
	excluded := func(i int) bool {
		for _, n := range not {
			if n == i {
				return true
			}
		}
		return false
	}
	for i, ac := range s.Accts {
		if excluded(i) {
			continue
		}
		if u := s.W.Store.Peek(ac.PID); u != nil && f(u) {
			return i
		}
	}
	// Nobody fits as seeded. Directed templates are built before the first request of a history, so the
	// harness may still decide what the accounts look like: try the canonical account states (second
	// factor none / TOTP / SMS / both, confirmed or not) on each candidate and seed the first that fits.
	if len(s.Hist) != 0 {
		return -1
	}
	for i, ac := range s.Accts {
		u := s.W.Store.Peek(ac.PID)
		if excluded(i) || u == nil || u.OAuth2UID != "" {
			continue
		}
		for _, st := range [][3]bool{{false, false, true}, {true, false, true}, {false, true, true}, {true, true, true}, {false, false, false}, {true, false, false}, {false, true, false}} {
			if (st[0] && !s.Cfg.Has2FA("totp")) || (st[1] && !s.Cfg.Has2FA("sms")) {
				continue
			}
			h := u.Clone()
			h.TOTPSecretKey, h.SMSPhone, h.Confirmed = "", "", st[2]
			if st[0] {
				h.TOTPSecretKey = "HYPOTHETICAL"
			}
			if st[1] {
				h.SMSPhone = ac.Phone
			}
			if !f(h) {
				continue
			}
			if (u.TOTPSecretKey != "") != st[0] || (u.SMSPhone != "") != st[1] {
				s.SetTwoFA(i, st[0], st[1])
			}
			if u.Confirmed != st[2] {
				s.SetConfirmed(i, st[2])
			}
			return i
		}
	}
	return -1
}

func act(kind string, b, acct int, cls string, opt ...string) *sim.Action {
	a := &sim.Action{Kind: kind, B: b, A: acct, Cls: cls, Opt: map[string]string{}}
	for i := 0; i+1 < len(opt); i += 2 {
		a.Opt[opt[i]] = opt[i+1]
	}
	return a
}

var c02Templates = []sim.Template{
	{Name: "sms-two-logins-one-session", F: func(s *sim.Sim) []*sim.Action {
		// own SMS login, then the victim's password in the same session at a gap around the resend
		// limit, then a code from the attacker's own phone
		if !s.Cfg.Has2FA("sms") || !s.Cfg.Has("auth") {
			return nil
		}
		x := findAcct(s, func(u *world.User) bool { return u.SMSPhone != "" })
		v := findAcct(s, func(u *world.User) bool { return u.SMSPhone != "" }, x)
		if x < 0 || v < 0 {
			return nil
		}
		b := s.R.Intn(len(s.Br))
		gap := []string{"0s", "1s", "9s", "10s", "11s", "1m0s"}[s.R.Intn(6)]
		sc := []*sim.Action{act("login", b, x, "ok"), act("advance", b, -9, "", "d", gap), act("login", b, v, "ok")}
		if gap == "0s" {
			sc = []*sim.Action{sc[0], sc[2]}
		}
		sc = append(sc, act("sms_validate", b, -9, "ownsms", "own", fmt.Sprint(x)))
		if s.R.Intn(2) == 0 {
			sc = append(sc, act("sms_validate", b, -9, "ok"))
		}
		return sc
	}},
	{Name: "sms-gateway-down-during-victim-login", F: func(s *sim.Sim) []*sim.Action {
		// an unfinished own SMS login, then — outside the resend limit — the victim's password while
		// the SMS gateway fails, then the code from the attacker's own phone
		if !s.Cfg.Has2FA("sms") || !s.Cfg.Has("auth") {
			return nil
		}
		x := findAcct(s, func(u *world.User) bool { return u.SMSPhone != "" })
		v := findAcct(s, func(u *world.User) bool { return u.SMSPhone != "" }, x)
		if x < 0 || v < 0 {
			return nil
		}
		b := s.R.Intn(len(s.Br))
		gap := []string{"11s", "1m0s", "9s"}[s.R.Intn(3)]
		return []*sim.Action{act("login", b, x, "ok"), act("advance", b, -9, "", "d", gap), act("faultnext", b, -9, "", "op", "sms"), act("login", b, v, "ok"),
			act("sms_validate", b, -9, "ownsms", "own", fmt.Sprint(x)), act("sms_validate", b, -9, "lastsms")}
	}},
	{Name: "victim-first-then-own", F: func(s *sim.Sim) []*sim.Action {
		if !s.Cfg.Has2FA("sms") || !s.Cfg.Has("auth") {
			return nil
		}
		x := findAcct(s, func(u *world.User) bool { return u.SMSPhone != "" })
		v := findAcct(s, func(u *world.User) bool { return u.SMSPhone != "" }, x)
		if x < 0 || v < 0 {
			return nil
		}
		b := s.R.Intn(len(s.Br))
		return []*sim.Action{act("login", b, v, "ok"), act("login", b, x, "ok"), act("sms_validate", b, -9, "lastsms"), act("login", b, v, "ok"), act("sms_validate", b, -9, "ownsms", "own", fmt.Sprint(x))}
	}},
	{Name: "totp-own-session-then-victim-password", F: func(s *sim.Sim) []*sim.Action {
		// fully logged in on an own TOTP account, then the victim's password in the same session (the
		// login is parked, the own session stays), then own proofs at the validate step: the own code
		// and an own recovery code prove the OWN second factor — the session must stay the own account's
		if !s.Cfg.Has2FA("totp") || !s.Cfg.Has("auth") {
			return nil
		}
		x := findAcct(s, func(u *world.User) bool { return u.TOTPSecretKey != "" && u.Confirmed })
		v := findAcct(s, func(u *world.User) bool { return u.TOTPSecretKey != "" && u.Confirmed }, x)
		if x < 0 || v < 0 {
			return nil
		}
		b := s.R.Intn(len(s.Br))
		sc := []*sim.Action{act("login", b, x, "ok"), act("totp_validate", b, -9, "ok"), act("advance", b, -9, "", "d", "31s"), act("login", b, v, "ok"),
			act("totp_validate", b, -9, pickS(s.R, "ok", "recovery")), act("visit", b, -9, "", "route", "/protected/bare")}
		if s.R.Intn(2) == 0 {
			sc = append(sc, act("login", b, v, "ok"), act("advance", b, -9, "", "d", "31s"), act("totp_validate", b, -9, pickS(s.R, "ok", "recovery")))
		}
		return sc
	}},
	{Name: "recovery-code-again-in-a-later-login", F: func(s *sim.Sim) []*sim.Action {
		// a recovery code completes one pending login; in a later login (fresh session, other browser) the
		// same code is no longer one of the account's unused codes
		if len(s.Cfg.TwoFA) == 0 || !s.Cfg.Has("auth") {
			return nil
		}
		k := s.Cfg.TwoFA[s.R.Intn(len(s.Cfg.TwoFA))]
		v := findAcct(s, func(u *world.User) bool {
			return u.Confirmed && ((k == "totp" && u.TOTPSecretKey != "" && u.SMSPhone == "") || (k == "sms" && u.SMSPhone != "" && u.TOTPSecretKey == ""))
		})
		if v < 0 {
			return nil
		}
		kv := k + "_validate"
		return []*sim.Action{act("login", 0, v, "ok"), act(kv, 0, -9, "recovery"), act("logout", 0, -9, ""), act("advance", 0, -9, "", "d", "11s"),
			act("login", 1, v, "ok"), act(kv, 1, -9, "recovery_spent"), act("advance", 1, -9, "", "d", "11s"), act("login", 2, v, "ok"), act(kv, 2, -9, "recovery_spent"), act(kv, 2, -9, "recovery")}
	}},
	{Name: "factor-removed-while-login-parked", F: func(s *sim.Sim) []*sim.Action {
		// an account with both factors; a login is parked at the second step in one browser; the owner,
		// fully logged in elsewhere, removes TOTP (SMS stays); the parked browser then answers the TOTP
		// step with the code of the EMPTY secret, which anybody can compute
		if !s.Cfg.Has2FA("totp") || !s.Cfg.Has2FA("sms") || !s.Cfg.Has("auth") {
			return nil
		}
		v := findAcct(s, func(u *world.User) bool { return u.TOTPSecretKey != "" && u.SMSPhone != "" && u.Confirmed })
		if v < 0 {
			return nil
		}
		return []*sim.Action{act("login", 0, v, "ok"), act("login", 1, v, "ok"), act("totp_validate", 1, -9, "ok"), act("advance", 1, -9, "", "d", "31s"),
			act("totp_remove", 1, -9, pickS(s.R, "ok", "recovery")), act("totp_validate", 0, -9, "emptysecret"), act("totp_validate", 0, -9, "ok"), act("visit", 0, -9, "", "route", "/protected/bare")}
	}},
	{Name: "blank-code-while-no-code-is-outstanding", F: func(s *sim.Sim) []*sim.Action {
		// a completed own SMS login (its code is used up), a logout that — the application whitelists
		// sms_last — keeps the resend stamp, then the victim's password inside the resend limit (no new
		// code goes out, the session holds none), then whitespace for a code
		if !s.Cfg.Has2FA("sms") || !s.Cfg.Has("auth") || !s.Cfg.Has("logout") || !inList(s.Cfg.Whitelist, "sms_last") {
			return nil
		}
		x := findAcct(s, func(u *world.User) bool { return u.SMSPhone != "" && u.TOTPSecretKey == "" && u.Confirmed })
		v := findAcct(s, func(u *world.User) bool { return u.SMSPhone != "" && u.TOTPSecretKey == "" && u.Confirmed }, x)
		if x < 0 || v < 0 {
			return nil
		}
		b := s.R.Intn(len(s.Br))
		return []*sim.Action{act("login", b, x, "ok"), act("sms_validate", b, -9, "ok"), act("logout", b, -9, ""), act("advance", b, -9, "", "d", pickS(s.R, "1s", "9s")),
			act("login", b, v, "ok"), act("sms_validate", b, -9, "blank"), act("sms_validate", b, -9, "empty"), act("sms_validate", b, -9, "blank"), act("visit", b, -9, "", "route", "/protected/bare")}
	}},
	{Name: "cross-kind-pending", F: func(s *sim.Sim) []*sim.Action {
		if len(s.Cfg.TwoFA) < 2 || !s.Cfg.Has("auth") {
			return nil
		}
		t := findAcct(s, func(u *world.User) bool { return u.TOTPSecretKey != "" && u.SMSPhone == "" })
		m := findAcct(s, func(u *world.User) bool { return u.SMSPhone != "" && u.TOTPSecretKey == "" })
		if t < 0 || m < 0 {
			return nil
		}
		b := s.R.Intn(len(s.Br))
		return []*sim.Action{act("login", b, t, "ok"), act("login", b, m, "ok"), act("totp_validate", b, -9, "othertotp"), act("sms_validate", b, -9, "ok"), act("totp_validate", b, -9, "ok")}
	}},
	{Name: "recover-login-2fa", F: func(s *sim.Sim) []*sim.Action {
		if !s.Cfg.Has("recover") {
			return nil
		}
		v := findAcct(s, func(u *world.User) bool { return u.SMSPhone != "" || u.TOTPSecretKey != "" })
		if v < 0 {
			return nil
		}
		b := s.R.Intn(len(s.Br))
		e := act("recover_end", b, v, "current")
		e.Cls2 = "fresh"
		return []*sim.Action{act("recover_start", b, v, ""), e, act("visit", b, -9, "", "route", "/protected/plain")}
	}},
	{Name: "otp-login-2fa", F: func(s *sim.Sim) []*sim.Action {
		if !s.Cfg.Has("otp") || !s.Cfg.Has("auth") {
			return nil
		}
		v := findAcct(s, func(u *world.User) bool { return u.TOTPSecretKey != "" })
		if v < 0 {
			return nil
		}
		b, b2 := 0, 1
		return []*sim.Action{act("login", b, v, "ok"), act("totp_validate", b, -9, "ok"), act("otp_add", b, -9, ""), act("otp_login", b2, v, "ok"), act("visit", b2, -9, "", "route", "/protected/plain"), act("totp_validate", b2, -9, "wrong"), act("totp_validate", b2, -9, "recovery")}
	}},
	{Name: "short-code", F: func(s *sim.Sim) []*sim.Action {
		// the tail of the current code (1, 3, 5 digits) is not a code of the factor, whatever number of digits
		// an authenticator may be configured for
		if !s.Cfg.Has2FA("totp") || !s.Cfg.Has("auth") {
			return nil
		}
		v := findAcct(s, func(u *world.User) bool { return u.TOTPSecretKey != "" && u.Confirmed })
		if v < 0 {
			return nil
		}
		b := s.R.Intn(len(s.Br))
		return []*sim.Action{act("login", b, v, "ok"), act("totp_validate", b, -9, "cur_tail", "n", "1"), act("totp_validate", b, -9, "cur_tail", "n", "3"),
			act("totp_validate", b, -9, "cur_tail", "n", "5"), act("visit", b, -9, "", "route", "/protected/bare")}
	}},
	{Name: "enrol-then-victim", F: func(s *sim.Sim) []*sim.Action {
		// attacker enrols SMS on an own plain account (code goes to the attacker's phone), then the
		// victim's password in a second browser session sharing nothing: must not help
		if !s.Cfg.Has2FA("sms") || !s.Cfg.Has("auth") || s.Cfg.TwoFAEmail {
			return nil
		}
		x := findAcct(s, func(u *world.User) bool { return u.SMSPhone == "" && u.TOTPSecretKey == "" && u.Confirmed })
		v := findAcct(s, func(u *world.User) bool { return u.SMSPhone != "" }, x)
		if x < 0 || v < 0 {
			return nil
		}
		b := s.R.Intn(len(s.Br))
		return []*sim.Action{act("login", b, x, "ok"), act("sms_setup", b, -9, "own"), act("logout", b, -9, ""), act("login", b, v, "ok"), act("sms_validate", b, -9, "ownsms", "own", fmt.Sprint(x)), act("sms_validate", b, -9, "lastsms")}
	}},
}

var c02Profile = &sim.Profile{
	W: map[string]int{
		"login": 26, "otp_login": 6, "otp_add": 4, "recover_start": 4, "recover_end": 6, "totp_validate": 14, "sms_validate": 16,
		"advance": 6, "logout": 2, "visit": 3, "sms_setup": 2, "sms_confirm": 2, "totp_setup": 1, "totp_confirm": 1, "dropsid": 2,
		"steal": 1, "raw": 2, "admin_unlock": 2, "sms_remove": 1, "totp_remove": 1, "regen": 1, "faultnext": 3,
	},
	Cls: map[string]map[string]int{
		"login": {"ok": 70, "wrong": 10, "other": 8, "near": 6, "empty": 3, "hash": 3},
	},
	MinLen: 15, MaxLen: 40, Templates: c02Templates, TplProb: 0.6, NoiseProb: 0.15,
}

func cfg2FA(c *RunCtx, id string, unit int) (world.Cfg, *sim.Sim, bool) {
	r := Rng(c.Seed, id, unit)
	cfg := randomCfg(r, "auth")
	if len(cfg.TwoFA) == 0 {
		cfg.TwoFA = [][]string{{"totp"}, {"sms"}, {"totp", "sms"}, {"sms", "totp"}}[r.Intn(4)]
	}
	if unit%4 == 1 {
		// an application that whitelists the SMS resend stamp (so that a logout does not reset the limit)
		cfg.Whitelist = []string{"app_theme", "sms_last"}
		if !cfg.Has("logout") {
			cfg.Modules = append(cfg.Modules, "logout")
		}
	}
	s, err := sim.New(cfg, r, sim.SeedOpt{Accounts: 4, Browsers: 3, TwoFAProb: 0.75, Unconfirmed: 0.05})
	if err != nil {
		c.Stats.Inconclusive = append(c.Stats.Inconclusive, "world: "+err.Error())
		return cfg, nil, false
	}
	return cfg, s, true
}

// c02InterleavedValidate: two browsers, two accounts with the same second factor, both parked at the second
// step. Browser 1 (the adversary, her own account) submits her own valid code and is suspended before each of
// the backend calls of that request in turn; meanwhile browser 2 posts a wrong code for the victim's parked
// login; browser 1 resumes. Whatever the two are told, browser 1's session never names the victim.
func c02InterleavedValidate(c *RunCtx, unit int) {
	kind := []string{"sms", "totp"}[(unit/6)%2]
	cfg := world.Cfg{Modules: []string{"auth", "lock", "logout"}, TwoFA: []string{kind}, Mount: "/auth", JSON: (unit/12)%2 == 1, LockAfter: 5, LockWindow: 5 * time.Minute, LockDuration: time.Hour}
	w, err := world.New(cfg, "c02-interleave")
	if err != nil {
		c.Stats.Inconclusive = append(c.Stats.Inconclusive, "world: "+err.Error())
		return
	}
	pw := "Sh4red!passw"
	secA, secV := "JBSWY3DPEHPK3PXPJBSWY3DPEHPK3PXP", "KRSXG5CTMVRXEZLUKRSXG5CTMVRXEZLU"
	uA := &world.User{PID: "mallory@site.test", Email: "mallory@site.test", Password: sim.Hash4(pw), Confirmed: true}
	uV := &world.User{PID: "victim@site.test", Email: "victim@site.test", Password: sim.Hash4(pw), Confirmed: true}
	if kind == "sms" {
		uA.SMSPhone, uV.SMSPhone = "+15550100", "+15550199"
	} else {
		uA.TOTPSecretKey, uV.TOTPSecretKey = secA, secV
	}
	w.Store.Put(uA)
	w.Store.Put(uV)
	b1, b2 := world.NewBrowser(1), world.NewBrowser(2)
	w.Do(b1, world.Req{Method: "POST", Path: w.P("/login"), Form: map[string]string{"email": uA.PID, "password": pw}})
	w.Do(b2, world.Req{Method: "POST", Path: w.P("/login"), Form: map[string]string{"email": uV.PID, "password": pw}})
	codeA := sim.TOTPNow(secA)
	if kind == "sms" {
		codeA = ""
		for _, m := range w.SMSs {
			if m.Number == uA.SMSPhone {
				codeA = m.Text
			}
		}
	}
	if w.Sess.Of(b1)[kind+"_pending"] != uA.PID || w.Sess.Of(b2)[kind+"_pending"] != uV.PID || codeA == "" {
		c.Stats.Inconclusive = append(c.Stats.Inconclusive, "c02 interleave: the two logins did not park")
		return
	}
	validate := w.P("/2fa/" + kind + "/validate")
	base := w.SaveState()
	for at := 0; at < 10; at++ {
		w.LoadState(base)
		x1, x2 := b1.Clone(), b2.Clone()
		w.YieldedAt = nil
		w.Yield = map[int]func(){at: func() {
			w.Do(x2, world.Req{Method: "POST", Path: validate, Form: map[string]string{"code": "000000"}})
		}}
		w.Do(x1, world.Req{Method: "POST", Path: validate, Form: map[string]string{"code": codeA}})
		w.Yield = nil
		if len(w.YieldedAt) == 0 {
			break
		}
		c.Stats.Evaluations++
		c.Stats.Count("second-steps-interleaved")
		got := w.Sess.Of(x1)["uid"]
		c.Stats.Sig(fmt.Sprintf("interleaved-validate/%s/before-%s#%d/%s/uid=%v", kind, w.YieldedAt[0], at, modeOf(cfg), got != ""))
		if got != "" && got != uA.PID {
			v := vio("C02", kind+"-validate-code-not-of-that-account|interleaved-with-another-session", "browser 1 presented only the %s code of %q; while that request was suspended before its backend call #%d (%s) browser 2 posted a wrong code for %q's parked login; browser 1's session now names %q", kind, uA.PID, at, w.YieldedAt[0], uV.PID, got)
			c.Stats.Violations = append(c.Stats.Violations, sim.VioRec{Violation: *v, Index: unit, Cfg: cfg.String(), History: []string{"b1: login mallory (parks)", "b2: login victim (parks)", "b1: validate own code — suspended", "b2: validate 000000", "b1 resumes"}})
			w.LoadState(base)
			return
		}
	}
	w.LoadState(base)
}

// yieldingReader widens the window after every read of the process' entropy source (a scheduling point
// injected at an existing suspension point: the read is a system call).
type yieldingReader struct{ inner io.Reader }

func (y yieldingReader) Read(p []byte) (int, error) {
	n, err := y.inner.Read(p)
	runtime.Gosched()
	time.Sleep(50 * time.Microsecond)
	return n, err
}

// smsIssueBurst: "a code obtained for any other account or phone never completes it" presupposes that the codes
// texted to different phones at the same moment are different codes. G SMS accounts do the password step at the
// same moment on a real server, R rounds; a pair of simultaneously issued identical codes is a 10^-6 accident —
// two or more such pairs in one probe are not.
func smsIssueBurst(seed int64, G, R int) (string, int) {
	srv, err := newC20Server(seed, false, false, false)
	if err != nil {
		return "", 0
	}
	defer srv.close()
	old := crand.Reader
	crand.Reader = yieldingReader{old}
	defer func() { crand.Reader = old }()
	phone := func(g int) string { return fmt.Sprintf("+1666%04d", g) }
	for g := 0; g < G; g++ {
		pid := fmt.Sprintf("sms%d@site.test", g)
		srv.store.Put(&world.User{PID: pid, Email: pid, Password: sim.Hash4("Sm5!passwd"), Confirmed: true, SMSPhone: phone(g)})
	}
	same, issued, witness := 0, 0, ""
	for round := 0; round < R; round++ {
		var wg sync.WaitGroup
		start := make(chan struct{})
		for g := 0; g < G; g++ {
			wg.Add(1)
			go func(g int) {
				defer wg.Done()
				hc := &http.Client{CheckRedirect: func(*http.Request, []*http.Request) error { return http.ErrUseLastResponse }, Timeout: 30 * time.Second}
				req, _ := http.NewRequest("POST", srv.srv.URL+"/auth/login", strings.NewReader(url.Values{"email": {fmt.Sprintf("sms%d@site.test", g)}, "password": {"Sm5!passwd"}}.Encode()))
				req.Header.Set("Content-Type", "application/x-www-form-urlencoded")
				<-start
				if resp, err := hc.Do(req); err == nil {
					io.Copy(io.Discard, resp.Body)
					resp.Body.Close()
				}
			}(g)
		}
		close(start)
		wg.Wait()
		codes := map[string]int{}
		for g := 0; g < G; g++ {
			if t := srv.sms.to(phone(g)); len(t) == round+1 {
				issued++
				if o, dup := codes[t[round]]; dup {
					same++
					witness = fmt.Sprintf("round %d: %q was texted to %s and to %s", round, t[round], phone(o), phone(g))
				}
				codes[t[round]] = g
			}
		}
	}
	if same >= 2 {
		return fmt.Sprintf("%d pairs of identical SMS login codes were issued at the same moment to different phones among %d issuances (%s)", same, issued, witness), issued
	}
	return "", issued
}

// c02FaultProfile: a recovery code completes a login while a storage write of that request fails; the same
// code is then presented again from another browser.
var c02FaultProfile = &sim.Profile{
	W:      map[string]int{"login": 30, "totp_validate": 15, "sms_validate": 15, "logout": 5, "advance": 5, "visit": 5},
	MinLen: 10, MaxLen: 20, TplProb: 1,
	Templates: []sim.Template{{Name: "recovery-code-used-while-a-write-fails-then-used-again", F: func(s *sim.Sim) []*sim.Action {
		if !s.Cfg.Has("auth") || len(s.Cfg.TwoFA) == 0 {
			return nil
		}
		kind := s.Cfg.TwoFA[s.R.Intn(len(s.Cfg.TwoFA))]
		v := findAcct(s, func(u *world.User) bool {
			return u.Confirmed && u.RecoveryCodes != "" && ((kind == "totp" && u.TOTPSecretKey != "") || (kind == "sms" && u.SMSPhone != "" && u.TOTPSecretKey == ""))
		})
		if v < 0 {
			return nil
		}
		k := kind + "_validate"
		return []*sim.Action{act("login", 0, v, "ok"), act("faultnext", 0, -9, "", "op", "Save"), act(k, 0, -9, "recovery"), act("visit", 0, -9, "", "route", "/protected/bare"),
			act("login", 1, v, "ok"), act(k, 1, -9, "recovery_spent"), act("visit", 1, -9, "", "route", "/protected/bare"),
			act("login", 2, v, "ok"), act("faultnext", 2, -9, "", "op", pickS(s.R, "Save", "Load")), act(k, 2, -9, "recovery"), act(k, 2, -9, "recovery_spent")}
	}}},
}

func init() {
	register(&Check{
		ID: "C02", Level: "exploration",
		Rule:  "histories with an adversary who knows every password and owns accounts/phones: directed attack templates (two SMS logins in one session at gaps around the resend limit, cross-kind pending, recover-and-login, OTP login, enrolment-then-victim) interleaved with random noise, plus random walks; after every login-type request, a session that becomes a 2FA-enabled account must come from the matching validate endpoint with a TOTP code of ITS stored secret for the current 30-second period or one either side (the TOTP dependency is put on the virtual clock by the build overlay, so 'stale' probes sit exactly 2, 3, 10, 29, 31, 60 periods away), an SMS code the outbox shows was delivered to ITS registered number, or one of its unused recovery codes. Every third unit runs a second, directed history (its own PRNG): a recovery code completes a login while a storage write of that request fails, then the same code is presented again from another browser. Every 6th unit: two browsers parked at the second step of two accounts with the same factor; browser 1's validate request (its own valid code) is suspended before each of its backend calls while browser 2 posts a wrong code for the victim: browser 1's session never names the victim. Every 100th unit: 8 SMS accounts do the password step at the same moment on a real server, 20 rounds, with a scheduling point injected after every read of the entropy source: two or more pairs of identical codes issued simultaneously to different phones are a violation. distinct_nontrivial = distinct (flow, code class, account state, session state, mode, outcome) signatures on 2FA-enabled accounts.",
		Units: func(t string) int { return tierN(t, 800, 25000) },
		Run: func(c *RunCtx, unit int) {
			if unit%6 == 5 {
				c02InterleavedValidate(c, unit)
			}
			if unit%100 == 7 {
				if msg, n := smsIssueBurst(c.Seed*1000+int64(unit), 8, 20); msg != "" {
					c.Stats.Violations = append(c.Stats.Violations, sim.VioRec{Violation: *vio("C02", "identical-sms-codes-issued-simultaneously-to-different-phones", "%s", msg), Index: unit})
					return
				} else {
					c.Stats.Add("sms-codes-issued-concurrently", n)
				}
			}
			_, s, ok := cfg2FA(c, "C02", unit)
			if !ok {
				return
			}
			sim.RunHistory(s, c02Profile, []sim.Monitor{c02mon{c.Stats}}, c.Stats, unit)
			if unit%3 == 0 && len(c.Stats.Violations) == 0 {
				// a second, directed history with a generator of its own: "one of its UNUSED recovery codes" when
				// the write that strikes the code off fails
				if _, s2, ok := cfg2FA(c, "C02-recovery-under-fault", unit); ok {
					sim.RunHistory(s2, c02FaultProfile, []sim.Monitor{c02mon{c.Stats}}, c.Stats, unit)
				}
			}
		},
		Floors: func(t string) map[string]int {
			return map[string]int{"2fa-complete:totp-code": 5, "2fa-complete:sms-code": 5, "2fa-complete:recovery": 3, "template:sms-two-logins-one-session": 10, "template:cross-kind-pending": 3, "template:recover-login-2fa": 5}
		},
		Assumptions: []string{
			"TOTP validity: the current period and one either side (the tolerance totp.Validate documents); the dependency's clock read is redirected to the virtual clock by the build overlay",
			"an SMS code counts as the account's own only if the SMS outbox delivered exactly that text to the number stored for the account",
		},
	})
}
