// Package checks holds one monitor-driven check per property.
package checks

import (
	"fmt"
	"hash/fnv"
	"math"
	"math/rand"
	"sort"
	"strings"
	"time"
	"unicode"

	"verif/sim"
	"verif/world"
)

// RunCtx is what a unit of work gets.
type RunCtx struct {
	Seed    int64
	Tier    string
	Stats   *sim.Stats
	Verif   string
	Scratch string
	Verbose bool
}

// Check is the registration record of one property's check.
type Check struct {
	ID          string
	Level       string // exploration | fault_enumeration
	Rule        string
	Units       func(tier string) int
	Run         func(c *RunCtx, unit int)
	Floors      func(tier string) map[string]int
	Assumptions []string
	Serial      bool
	Exhaustive  bool
}

var Registry = map[string]*Check{}

func register(c *Check) { Registry[c.ID] = c }

// Rng derives the deterministic PRNG of one unit.
func Rng(seed int64, id string, unit int) *rand.Rand {
	h := fnv.New64a()
	fmt.Fprintf(h, "%d|%s|%d", seed, id, unit)
	return rand.New(rand.NewSource(int64(h.Sum64())))
}

func tierN(tier string, quick, thorough int) int {
	if tier == "thorough" {
		return thorough
	}
	return quick
}

var allMods = []string{"auth", "confirm", "lock", "logout", "oauth2", "otp", "recover", "register", "remember"}

func shuffled(r *rand.Rand, xs []string) []string {
	out := append([]string(nil), xs...)
	r.Shuffle(len(out), func(i, j int) { out[i], out[j] = out[j], out[i] })
	return out
}

// randomCfg draws a configuration point. must lists modules that have to be present.
func randomCfg(r *rand.Rand, must ...string) world.Cfg {
	var mods []string
	full := r.Intn(3) == 0
	for _, m := range allMods {
		need := false
		for _, x := range must {
			if x == m {
				need = true
			}
		}
		if need || full || r.Intn(100) < 65 {
			mods = append(mods, m)
		}
	}
	mods = shuffled(r, mods)
	c := world.Cfg{Modules: mods, Mount: pickS(r, "/auth", "/auth", "", "/a/b"), JSON: r.Intn(3) == 0}
	switch r.Intn(4) {
	case 0:
		c.TwoFA = []string{"totp"}
	case 1:
		c.TwoFA = []string{"sms"}
	case 2:
		c.TwoFA = shuffled(r, []string{"totp", "sms"})
	}
	c.RecoverLogin = r.Intn(2) == 0
	c.TwoFAEmail = len(c.TwoFA) > 0 && r.Intn(3) == 0
	c.OneTimeTOTP = r.Intn(2) == 0
	c.OAuth2Confirmed = r.Intn(4) != 0
	c.Secondary = r.Intn(3) == 0
	c.UseExpire = !c.Has("remember") && r.Intn(2) == 0
	if c.Has("remember") && r.Intn(6) == 0 {
		c.UseExpire = true // remember module loaded (tokens issued) but expire middleware installed
	}
	c.StoreTZ = []int{0, 0, 13 * 3600, -11 * 3600, 5*3600 + 1800}[r.Intn(5)]
	c.NilSessionState = r.Intn(3) == 0
	c.ExpireSetupFirst = r.Intn(2) == 0
	c.ClockZone = []int{0, 0, -8 * 3600, 9*3600 + 1800}[r.Intn(4)]
	c.ZoneLessStore = r.Intn(3) == 0
	if c.ZoneLessStore {
		c.StoreTZ = 0 // zone-less columns read back as UTC: a driver that hands them out in another zone would be a broken deployment
	}
	c.AppHooksFirst = r.Intn(3) == 0
	if r.Intn(2) == 0 {
		c.PreserveFields = []string{"name", "email", "zip", "city"}
	}
	c.Localizer = []string{"", "", "empty", "partial"}[r.Intn(4)]
	c.LockAfter = 1 + r.Intn(4)
	c.LockWindow = pickD(r, 5*time.Minute, 30*time.Second, 2*time.Hour)
	c.LockDuration = pickD(r, 12*time.Hour, time.Minute, 10*time.Second, 12*time.Hour, time.Minute, time.Duration(math.MaxInt64)) // the last one: "for ever" (a lock until the year 2300-something)
	c.ExpireAfter = pickD(r, time.Hour, 90*time.Second, 37*time.Hour)
	c.RecoverTTL = pickD(r, 24*time.Hour, 10*time.Minute)
	if r.Intn(2) == 0 {
		c.Whitelist = [][]string{{"app_theme"}, {"app_theme", "app_lang", "app_cart"}}[r.Intn(2)]
	}
	c.LogoutMethod = pickS(r, "DELETE", "POST", "GET")
	c.Err500 = r.Intn(2) == 0
	c.OnUnauthed = r.Intn(3)
	if c.Has("oauth2") {
		c.Providers = []string{"alpha", "beta-2"}
	}
	c.ProfileKeys = []string{"name"}
	// knobs added later are drawn from a generator of their own, keyed by the configuration drawn so far:
	// they must not shift the histories that earlier seeds produce
	h := fnv.New64a()
	h.Write([]byte(c.String()))
	r2 := rand.New(rand.NewSource(int64(h.Sum64())))
	c.TwoFASetupFirst = len(c.TwoFA) > 0 && r2.Intn(3) == 0
	c.AccessLog = []string{"", "", "current", "load"}[r2.Intn(4)]
	c.StreamBodies = r2.Intn(3) == 0
	c.AppendedRules = r2.Intn(2) == 0
	return c
}

func pickS(r *rand.Rand, xs ...string) string               { return xs[r.Intn(len(xs))] }
func pickD(r *rand.Rand, xs ...time.Duration) time.Duration { return xs[r.Intn(len(xs))] }

// acctClass labels the stored state of an account for signatures.
func acctClass(s *sim.Sim, sn *world.Snapshot, pid string) string {
	u := sn.Users[pid]
	if u == nil {
		return "noacct"
	}
	var p []string
	if u.TOTPSecretKey != "" {
		p = append(p, "totp")
	}
	if u.SMSPhone != "" {
		p = append(p, "sms")
	}
	if !u.Confirmed {
		p = append(p, "unconf")
	}
	if u.Locked.After(s.W.Now()) {
		p = append(p, "locked")
	}
	if u.OAuth2Provider != "" {
		p = append(p, "oauth")
	}
	if len(p) == 0 {
		return "plain"
	}
	return strings.Join(p, "+")
}

// sessClass labels a session map for signatures.
func sessClass(m map[string]string) string {
	var p []string
	if m["uid"] != "" {
		p = append(p, "user")
	}
	for _, k := range []string{"halfauth", "twofactor", "totp_pending", "sms_pending", "oauth2_state", "totp_secret", "sms_number", "twofactor_authed", "twofactor_auth_token"} {
		if m[k] != "" {
			p = append(p, k)
		}
	}
	if len(p) == 0 {
		return "anon"
	}
	sort.Strings(p)
	return strings.Join(p, "+")
}

func modeOf(c world.Cfg) string {
	if c.JSON {
		return "json"
	}
	return "form"
}

func vio(prop, sig, format string, args ...interface{}) *sim.Violation {
	return &sim.Violation{Prop: prop, Sig: prop + "|" + sig, Msg: fmt.Sprintf(format, args...)}
}

// subjectPID is the account a 2FA request is about at request start: the logged-in user, else
// the pending one of that kind.
func subjectPID(sessIn map[string]string, kind string) string {
	if v := sessIn["uid"]; v != "" {
		return v
	}
	return sessIn[kind+"_pending"]
}

func has2FA(c world.Cfg, u *world.User) bool {
	if u == nil {
		return false
	}
	return (c.Has2FA("totp") && u.TOTPSecretKey != "") || (c.Has2FA("sms") && u.SMSPhone != "")
}

// defaultPwOK is an independent evaluation of the shipped default password policy (min 8 bytes,
// at least one upper, lower, digit and symbol, no whitespace) — exact on ASCII; non-ASCII runes
// are classified with package unicode (the byte/rune question is scoped out of the properties).
func defaultPwOK(pw string) bool {
	if len(pw) < 8 {
		return false
	}
	var up, lo, di, sy, ws int
	for _, c := range pw {
		switch {
		case c >= 'A' && c <= 'Z':
			up++
		case c >= 'a' && c <= 'z':
			lo++
		case c >= '0' && c <= '9':
			di++
		case c == ' ' || (c >= '\t' && c <= '\r') || c == 0x85 || c == 0xA0:
			ws++
		case c < 0x80:
			sy++
		default:
			switch {
			case unicode.IsLetter(c) && unicode.IsUpper(c):
				up++
			case unicode.IsLetter(c):
				lo++
			case unicode.IsDigit(c):
				di++
			case unicode.IsSpace(c):
				ws++
			default:
				sy++
			}
		}
	}
	return up >= 1 && lo >= 1 && di >= 1 && sy >= 1 && ws == 0
}

// hashable reports whether bcrypt will accept the password (x/crypto refuses > 72 bytes).
func hashable(pw string) bool { return len(pw) <= 72 }

// subjectOf is the account a 2FA request is about when the handler runs: the session's user, a
// user the remember middleware re-authenticated earlier in this very request, else the pending
// login of that kind.
func subjectOf(s *sim.Sim, rec *world.Rec, kind string) string {
	if v := rec.SessIn["uid"]; v != "" {
		return v
	}
	if s.RememberActive() {
		if c := s.Cookies[rec.CookiesIn["rm"]]; c != nil && sim.SessPutAny(rec, "uid", c.PID) && sim.SessPutAny(rec, "halfauth", "true") {
			return c.PID
		}
	}
	return rec.SessIn[kind+"_pending"]
}
