package checks

import (
	"context"
	"fmt"
	ab2 "github.com/volatiletech/authboss/v3/oauth2"
	xoauth2 "golang.org/x/oauth2"
	"io"
	"math/rand"
	"net/http"
	"strings"

	"github.com/volatiletech/authboss/v3"
	"verif/sim"
	"verif/world"
)

type c14mon struct{ stats *sim.Stats }

func cbProvider(s *sim.Sim, rec *world.Rec) (string, bool) {
	if rec.Kind != "http" || rec.Method != "GET" {
		return "", false
	}
	p := strings.SplitN(rec.Target, "?", 2)[0]
	pre := s.W.P("/oauth2/callback/")
	if !strings.HasPrefix(p, pre) {
		return "", false
	}
	return strings.TrimPrefix(p, pre), true
}

func (m c14mon) Check(s *sim.Sim, st *sim.Step) []*sim.Violation {
	a, rec := st.Act, st.Rec
	prov, ok := cbProvider(s, rec)
	if !ok || !s.Cfg.Has("oauth2") || rec.Panic != "" {
		return nil
	}
	known := false
	for _, p := range s.Cfg.Providers {
		if p == prov {
			known = true
		}
	}
	if !known {
		return nil
	}
	bs := s.Br[a.B]
	state := ""
	if a.Kind == "oauth_cb" {
		state = a.Secret
	}
	_, issued := bs.OAuthState[state]
	valid := state != "" && issued && rec.SessIn["oauth2_state"] == state
	var vs []*sim.Violation
	touched := false
	for _, c := range rec.Calls {
		if c.Op == "SaveOAuth2" || c.Op == "NewFromOAuth2" {
			touched = true
		}
	}
	uidChanged := st.UIDIn != st.UIDOut && st.UIDOut != "" && !rememberJustifies(s, st, st.UIDOut)
	var userDiff []world.Change // remember-token rows rotated by the remember middleware are not user records
	for _, d := range rec.Diff() {
		if d.Field != "token+" && d.Field != "token-" {
			userDiff = append(userDiff, d)
		}
	}
	if !valid {
		why := a.Resolved
		if bs.OAuthSpent[state] {
			why = "spent"
		}
		m.stats.Count("callback-without-own-unused-state:" + why)
		if uidChanged {
			vs = append(vs, vio("C14", "callback-logged-in-without-own-unused-state|"+why, "OAuth2 callback with state class %s (session holds %q) logged the browser in as %q", why, trunc(rec.SessIn["oauth2_state"], 12), st.UIDOut))
		}
		if len(userDiff) != 0 || touched {
			vs = append(vs, vio("C14", "callback-touched-users-without-own-unused-state|"+why, "OAuth2 callback with state class %s created or updated a user: %v", why, userDiff))
		}
		if why == "spent" && rec.SessIn["oauth2_state"] == state && (uidChanged || touched) {
			// root cause visible here: the earlier matching callback did not spend the state
		}
		return vs
	}
	// a callback that does not end in a login leaves the session's authentication level alone: the half-auth
	// mark of a remembered session is lifted by a completed login only
	if rec.SessIn["halfauth"] != "" && rec.SessOut["halfauth"] == "" && rec.SessIn["uid"] != "" && rec.SessOut["uid"] == rec.SessIn["uid"] && !sim.SessPutAny(rec, "uid", rec.SessOut["uid"]) {
		vs = append(vs, vio("C14", "callback-lifted-half-auth-without-a-login", "an OAuth2 callback that logged nobody in (session user still %q) removed the half-authentication mark of the remembered session", rec.SessOut["uid"]))
	}
	// the matching callback spends the state, whatever else happens
	if rec.SessOut["oauth2_state"] == state {
		vs = append(vs, vio("C14", fmt.Sprintf("matching-callback-did-not-spend-state|handler-error=%v|response-written=%v", rec.HandlerErr != "", rec.Wrote), "the callback matching the session's state left that state in the session (handler error %q, response written: %v, client state delivered: %v): a replayed callback will be accepted", trunc(rec.HandlerErr, 60), rec.Wrote, flushed(rec)))
	} else {
		m.stats.Count("state-spent")
	}
	rep := s.W.Prov.LastReported
	hasErr := strings.Contains(rec.Target, "error=")
	switch {
	case hasErr:
		m.stats.Count("provider-error")
		if uidChanged || touched {
			vs = append(vs, vio("C14", "provider-error-logged-in", "a callback carrying a provider error logged in %q / touched users", st.UIDOut))
		}
	case rep == nil:
		m.stats.Count("exchange-failed")
		if uidChanged || len(userDiff) != 0 {
			vs = append(vs, vio("C14", "login-without-provider-identity", "callback whose code the provider did not resolve logged in %q / changed storage %v", st.UIDOut, userDiff))
		}
	default:
		want := authboss.MakeOAuth2PID(prov, rep.UID)
		if rep.Provider != prov {
			vs = append(vs, vio("C14", "identity-from-other-provider", "provider %q reported an identity minted by %q", prov, rep.Provider))
		}
		if pid, put := sim.SessPut(rec, "uid"); put {
			if pid != want && rememberJustifies(s, st, pid) {
				// the remember middleware re-authenticated this browser earlier in the same request and the
				// callback itself was stopped (lock/confirm): not the callback's doing
			} else if pid != want {
				vs = append(vs, vio("C14", "session-names-other-identity", "callback for (%s,%q) put uid=%q, want %q", prov, rep.UID, pid, want))
			} else {
				m.stats.Count("login-ok")
			}
		}
		okMsg := false
		if v, put := sim.SessPut(rec, "flash_success"); put && strings.HasPrefix(v, "Logged in successfully") {
			okMsg = true
		}
		if msg, _ := rec.JSON["message"].(string); strings.HasPrefix(msg, "Logged in successfully") {
			okMsg = true
		}
		if okMsg && rec.SessOut["uid"] != want && rec.FaultsFired == 0 {
			vs = append(vs, vio("C14", "successful-callback-left-other-identity-in-session", "the callback for (%s,%q) reported success but the session names %q (session before: uid=%q halfauth=%q)", prov, rep.UID, rec.SessOut["uid"], rec.SessIn["uid"], rec.SessIn["halfauth"]))
		}
		if u := rec.After.Users[want]; u == nil {
			if sim.SessPutAny(rec, "uid", want) {
				vs = append(vs, vio("C14", "logged-in-user-not-stored", "session names %q but no such user was stored", want))
			}
		} else if u.OAuth2Provider != prov || u.OAuth2UID != rep.UID {
			vs = append(vs, vio("C14", "stored-user-carries-other-identity", "stored user %q carries (%s,%q), provider reported (%s,%q)", want, u.OAuth2Provider, u.OAuth2UID, prov, rep.UID))
		}
		for _, d := range userDiff {
			if d.PID != want {
				vs = append(vs, vio("C14", "callback-touched-other-user", "callback for %q changed %s of %q", want, d.Field, d.PID))
			}
		}
	}
	return vs
}

func (m c14mon) Post(s *sim.Sim, st *sim.Step) []*sim.Violation { return nil }

func (m c14mon) Sig(s *sim.Sim, st *sim.Step) string {
	a, rec := st.Act, st.Rec
	if _, ok := cbProvider(s, rec); !ok {
		if a.Kind == "oauth_start" {
			return "start/" + sessClass(rec.SessIn)
		}
		return ""
	}
	out := "uid-same"
	if st.UIDIn != st.UIDOut {
		out = "uid-changed"
	}
	return fmt.Sprintf("cb/%s/%s/%s/%s/err500=%v/%s/diff=%d", a.Resolved, a.Cls2, sessClass(rec.SessIn), pidClassUID(a.Opt["uid"]), s.Cfg.Err500, out, len(rec.Diff()))
}

func pidClassUID(u string) string {
	switch {
	case u == "":
		return "plain-uid"
	case strings.Contains(u, ";;"):
		return "uid-with-;;"
	case strings.Contains(u, ";"):
		return "uid-with-;"
	case len(u) > 1000:
		return "4k-uid"
	}
	return "odd-uid"
}

var hostileUIDs = []string{";", ";;", "a;;b", "oauth2;;alpha;;x", "ünï©ode", strings.Repeat("u", 4096), " ", "x;y", "alpha;;1", "\x00nul", "x%3By", "a%3B%3Bb", "x%y", "x%25y", "x\\;y"}

func c14Extra(s *sim.Sim) *sim.Action {
	r := s.R
	b := r.Intn(len(s.Br))
	p := s.Cfg.Providers[r.Intn(len(s.Cfg.Providers))]
	a := act("oauth_cb", b, r.Intn(3), "own", "provider", p, "uid", hostileUIDs[r.Intn(len(hostileUIDs))])
	a.Cls2 = "validcode"
	return a
}

// codec: distinct (provider, uid) pairs never map to the same identifier; parse never returns a
// different pair.
func c14Codec(c *RunCtx, r *rand.Rand, n int) {
	const pch = "abcdefghijklmnopqrstuvwxyz0123456789_-"
	uch := []string{"a", "b", ";", ";;", "1", "oauth2", "ü", " ", "", "x;", "%3B", "%3b", "%", "%25", "%3B%3B", "\\;", "\\"}
	gen := func() (string, string) {
		var p, u string
		for i := 0; i < 1+r.Intn(4); i++ {
			p += string(pch[r.Intn(len(pch))])
		}
		for i := 0; i < r.Intn(5); i++ {
			u += uch[r.Intn(len(uch))]
		}
		return p, u
	}
	seen := map[string][2]string{}
	for i := 0; i < n; i++ {
		p, u := gen()
		pid := authboss.MakeOAuth2PID(p, u)
		c.Stats.Evaluations++
		if o, ok := seen[pid]; ok && (o[0] != p || o[1] != u) {
			v := vio("C14", "pid-collision", "(%q,%q) and (%q,%q) both map to %q", o[0], o[1], p, u, pid)
			c.Stats.Violations = append(c.Stats.Violations, sim.VioRec{Violation: *v})
		}
		seen[pid] = [2]string{p, u}
		pp, pu, err := authboss.ParseOAuth2PID(pid)
		switch {
		case err != nil:
			c.Stats.Count("codec:parse-refused")
		case pp != p || pu != u:
			v := vio("C14", "pid-parse-returns-other-pair", "Parse(Make(%q,%q)) = (%q,%q)", p, u, pp, pu)
			c.Stats.Violations = append(c.Stats.Violations, sim.VioRec{Violation: *v})
		default:
			c.Stats.Count("codec:roundtrip")
		}
	}
	c.Stats.Sig(fmt.Sprintf("codec/%d-pairs", n))
}

// c14Details: the library's own FindUserDetails functions for Google and Facebook against a provider
// "me" endpoint that reports account ids in every JSON spelling a provider might use: strings (digits of
// any length, with leading zeros, blank), bare numbers (small; neighbours beyond 2^53, where a float64
// cannot tell them apart; 1e3-style). Whatever is not refused must be exactly the reported id.
func c14Details(c *RunCtx) {
	type rep struct{ json, want string }
	var reps []rep
	for _, id := range []string{"1001", "0001001", "10000000000000000", "10000000000000001", "9007199254740993", "18446744073709551617", "abc-DEF", " 17 ", ""} {
		reps = append(reps, rep{fmt.Sprintf("%q", id), id})
	}
	for _, n := range []string{"1001", "9007199254740992", "9007199254740993", "10000000000000000", "10000000000000001", "10000000000000002", "18446744073709551617", "-5"} {
		reps = append(reps, rep{n, n})
	}
	for name, fn := range map[string]func(context.Context, xoauth2.Config, *xoauth2.Token) (map[string]string, error){"google": ab2.GoogleUserDetails, "facebook": ab2.FacebookUserDetails} {
		seen := map[string]string{}
		for _, rp := range reps {
			body := `{"id":` + rp.json + `,"email":"x@y.test","name":"N"}`
			ctx := context.WithValue(context.Background(), xoauth2.HTTPClient, &http.Client{Transport: roundTripFunc(func(*http.Request) (*http.Response, error) {
				return &http.Response{StatusCode: 200, Status: "200", Header: http.Header{"Content-Type": []string{"application/json"}}, Body: io.NopCloser(strings.NewReader(body))}, nil
			})})
			got, err := fn(ctx, xoauth2.Config{}, &xoauth2.Token{AccessToken: "t"})
			c.Stats.Evaluations++
			if err != nil {
				c.Stats.Count("details:refused")
				continue
			}
			uid := got[ab2.OAuth2UID]
			c.Stats.Count("details:accepted")
			if uid != rp.want {
				v := vio("C14", "provider-details-report-another-uid|"+name, "the provider reported id %s, %sUserDetails hands on uid %q", rp.json, name, uid)
				c.Stats.Violations = append(c.Stats.Violations, sim.VioRec{Violation: *v})
				return
			}
			if other, dup := seen[uid]; dup && other != rp.want {
				v := vio("C14", "provider-details-collision|"+name, "provider ids %s and %s both become uid %q", other, rp.json, uid)
				c.Stats.Violations = append(c.Stats.Violations, sim.VioRec{Violation: *v})
				return
			}
			seen[uid] = rp.want
			// ... and straight afterwards an answer that lacks members (the error document a provider sends for
			// a token without the profile scope; a profile without an e-mail address): what is absent is
			// absent, never what the previous visitor's answer said
			for _, partial := range []string{`{"error":{"code":401,"message":"Request is missing required authentication credential.","status":"UNAUTHENTICATED"}}`, `{"name":"Only A Name"}`, `{"id":"partial-7"}`} {
				pctx := context.WithValue(context.Background(), xoauth2.HTTPClient, &http.Client{Transport: roundTripFunc(func(*http.Request) (*http.Response, error) {
					return &http.Response{StatusCode: 200, Status: "200", Header: http.Header{"Content-Type": []string{"application/json"}}, Body: io.NopCloser(strings.NewReader(partial))}, nil
				})})
				pg, perr := fn(pctx, xoauth2.Config{}, &xoauth2.Token{AccessToken: "t2"})
				c.Stats.Evaluations++
				if perr != nil {
					c.Stats.Count("details:partial-answer-refused")
					continue
				}
				c.Stats.Count("details:partial-answer-accepted")
				wantUID := ""
				if strings.Contains(partial, "partial-7") {
					wantUID = "partial-7"
				}
				if pg[ab2.OAuth2UID] != wantUID || (pg[ab2.OAuth2Email] != "" && !strings.Contains(partial, pg[ab2.OAuth2Email])) {
					v := vio("C14", "provider-details-carry-over-from-previous-answer|"+name, "after an answer reporting id %s, the answer %s was turned into uid %q / email %q", rp.json, trunc(partial, 60), pg[ab2.OAuth2UID], pg[ab2.OAuth2Email])
					c.Stats.Violations = append(c.Stats.Violations, sim.VioRec{Violation: *v})
					return
				}
			}
		}
	}
}

type roundTripFunc func(*http.Request) (*http.Response, error)

func (f roundTripFunc) RoundTrip(r *http.Request) (*http.Response, error) { return f(r) }

var c14Templates = []sim.Template{
	{Name: "callback-in-half-authed-session", F: func(s *sim.Sim) []*sim.Action {
		if !s.RememberActive() {
			return nil
		}
		p := s.Cfg.Providers[s.R.Intn(len(s.Cfg.Providers))]
		cb := func(b, ident int) *sim.Action {
			a := act("oauth_cb", b, ident, "own", "provider", p)
			a.Cls2 = "validcode"
			return a
		}
		// identity 0 logs in and asks to be remembered; the session is lost; the cookie restores a
		// half-authed session; then identity 1 comes back from the provider in that session
		return []*sim.Action{act("oauth_start", 0, -9, "", "provider", p, "rm", "true"), cb(0, 0), act("dropsid", 0, -9, ""), act("visit", 0, -9, "", "route", "/public"),
			act("oauth_start", 0, -9, "", "provider", p), cb(0, 1), act("visit", 0, -9, "", "route", "/protected/full")}
	}},
}

// c14ParamsProfile: identity 0 logs in normally; identity 1 then starts with ?uid=<identity 0's uid>&email=…&name=…
// and comes back with a fully valid callback of its own.
var c14ParamsProfile = &sim.Profile{
	W:      map[string]int{"oauth_start": 30, "oauth_cb": 45, "logout": 10, "visit": 10},
	Cls:    map[string]map[string]int{"oauth_cb": {"own": 90, "spent": 10}, "oauth_cb2": {"validcode": 100}},
	MinLen: 10, MaxLen: 20, TplProb: 1,
	Templates: []sim.Template{{Name: "start-parameters-named-like-provider-fields", F: func(s *sim.Sim) []*sim.Action {
		if len(s.Cfg.Providers) == 0 || len(s.Idents) < 2 {
			return nil
		}
		p := s.Cfg.Providers[s.R.Intn(len(s.Cfg.Providers))]
		var ids []world.Identity
		for _, id := range s.Idents {
			if id.Provider == p {
				ids = append(ids, id)
			}
		}
		if len(ids) < 2 {
			return nil
		}
		cb := func(b, ident int) *sim.Action {
			a := act("oauth_cb", b, ident, "own", "provider", p)
			a.Cls2 = "validcode"
			return a
		}
		x := "uid=" + ids[0].UID + "&email=" + ids[0].Email + "&name=Somebody+Else&invite=abc"
		return []*sim.Action{act("oauth_start", 0, -9, "", "provider", p), cb(0, 0), act("logout", 0, -9, ""),
			act("oauth_start", 1, -9, "", "provider", p, "extraq", x), cb(1, 1), act("visit", 1, -9, "", "route", "/protected/bare"),
			act("oauth_start", 2, -9, "", "provider", p, "extraq", "oauth2uid="+ids[0].UID+"&oauth2_uid="+ids[0].UID+"&pid=x"), cb(2, 1), act("visit", 2, -9, "", "route", "/protected/bare")}
	}}, {Name: "declined-at-the-provider-in-a-remembered-session", F: func(s *sim.Sim) []*sim.Action {
		if !s.RememberActive() || !s.Cfg.Has("auth") || len(s.Cfg.Providers) == 0 {
			return nil
		}
		p := s.Cfg.Providers[s.R.Intn(len(s.Cfg.Providers))]
		v := s.R.Intn(len(s.Accts))
		decl := act("oauth_cb", 0, 0, "own", "provider", p)
		decl.Cls2 = "error"
		bad := act("oauth_cb", 0, 0, "own", "provider", p)
		bad.Cls2 = "badcode"
		// a local account, remembered; the session is lost and restored from the cookie (half-authenticated); the
		// visitor starts an OAuth2 login and presses "deny" at the provider (or the code is refused)
		return []*sim.Action{act("login", 0, v, "ok", "rm", "true"), act("dropsid", 0, -9, ""), act("visit", 0, -9, "", "route", "/public"),
			act("oauth_start", 0, -9, "", "provider", p), decl, act("visit", 0, -9, "", "route", "/protected/full"),
			act("oauth_start", 0, -9, "", "provider", p), bad, act("visit", 0, -9, "", "route", "/protected/full")}
	}}},
}

var c14Profile = &sim.Profile{
	W: map[string]int{"oauth_start": 30, "oauth_cb": 45, "logout": 5, "dropsid": 3, "visit": 5, "login": 4, "raw": 2, "advance": 1, "steal": 2},
	Cls: map[string]map[string]int{
		"oauth_cb":  {"own": 40, "empty": 8, "otherbrowser": 14, "spent": 14, "prefix": 6, "extended": 6, "caseflip": 6, "garbage": 6},
		"oauth_cb2": {"validcode": 65, "badcode": 12, "othercode": 8, "error": 15},
		"login":     {"ok": 80, "wrong": 20},
	},
	MinLen: 25, MaxLen: 60, Extra: c14Extra, ExtraProb: 0.12, Templates: c14Templates, TplProb: 0.3, NoiseProb: 0.1,
}

func init() {
	register(&Check{
		ID: "C14", Level: "exploration",
		Rule:  "interleaved OAuth2 starts and callbacks over 3 browsers x 2 providers; state strings: the session's own, empty, prefix, extended, case-flipped, another browser's, spent, garbage; codes: valid, bogus, minted by the other provider, provider error; provider-reported uids from a hostile corpus (';', ';;', 'oauth2;;alpha;;x', NUL, non-ASCII, 4 KB, blank). The fake provider's tables are the ground truth of which identity was reported. Oracle: a callback touches users or sets uid only if its state equals the value issued to THIS browser by a start request and not yet matched; a matching callback leaves no state behind; on success uid == Make(provider-of-callback, reported uid) and the stored user carries that pair; provider errors and failed exchanges log nobody in. Plus the library's own Google/Facebook FindUserDetails functions against a 'me' endpoint reporting ids as strings and as bare JSON numbers (incl. neighbours beyond 2^53): what is not refused is exactly the reported id; after every complete answer three partial ones (the provider's JSON error document, a name-only and an id-only profile): absent members come out absent, never as the previous answer's. Plus a codec sweep: generated (provider,uid) pairs (provider from [a-z0-9_-]+) never collide and Parse(Make()) never yields a different pair. Odd units run a second, directed history in which a start request carries pass-along parameters named uid / email / name of ANOTHER identity before an own valid callback. A callback that logs nobody in (declined at the provider, code refused) leaves the half-authentication mark of a remembered session alone. distinct_nontrivial = distinct (state class, code class, session state, uid class, error-handler kind, uid outcome, diff size) signatures.",
		Units: func(t string) int { return tierN(t, 640, 30000) },
		Run: func(c *RunCtx, unit int) {
			r := Rng(c.Seed, "C14", unit)
			if unit%40 == 0 {
				c14Codec(c, r, 5000)
				c14Details(c)
			}
			cfg := randomCfg(r, "oauth2", "logout")
			cfg.TwoFA = nil
			s, err := sim.New(cfg, r, sim.SeedOpt{Accounts: 2, Browsers: 3})
			if err != nil {
				c.Stats.Inconclusive = append(c.Stats.Inconclusive, "world: "+err.Error())
				return
			}
			sim.RunHistory(s, c14Profile, []sim.Monitor{c14mon{c.Stats}}, c.Stats, unit)
			if unit%2 == 1 && len(c.Stats.Violations) == 0 {
				// a second, directed history (generator of its own): start requests that carry pass-along parameters
				// named like the provider's own answer fields
				r2 := Rng(c.Seed, "C14-start-params", unit)
				cfg2 := randomCfg(r2, "oauth2", "logout", "auth")
				cfg2.TwoFA = nil
				if s2, err := sim.New(cfg2, r2, sim.SeedOpt{Accounts: 2, Browsers: 3}); err == nil {
					sim.RunHistory(s2, c14ParamsProfile, []sim.Monitor{c14mon{c.Stats}}, c.Stats, unit)
				}
			}
		},
		Floors: func(t string) map[string]int {
			return map[string]int{"details:partial-answer-accepted": 100, "login-ok": 300, "state-spent": 300, "provider-error": 30, "exchange-failed": 30, "callback-without-own-unused-state:spent": 50, "callback-without-own-unused-state:otherbrowser": 50, "codec:roundtrip": 1000}
		},
		Assumptions: []string{"provider names are drawn from [a-z0-9_-]+ (lower-cased URL path segments) — the reading of 'free of the identifier separator'", "Parse(Make(p,u)) may refuse uids containing ';;' (counted) but must never return a different pair"},
	})
}
