package main

import (
	"fmt"
	"verif/world"
)

func main() {
	cfg := world.Cfg{Modules: []string{"auth", "confirm", "lock", "logout", "oauth2", "otp", "recover", "register", "remember"}, TwoFA: []string{"totp", "sms"}, Mount: "/auth", Providers: []string{"alpha"}}
	w, err := world.New(cfg, "x")
	if err != nil {
		panic(err)
	}
	b := world.NewBrowser(0)
	r := w.Do(b, world.Req{Method: "POST", Path: "/auth/register", Form: map[string]string{"email": "a@b.cc", "password": "Abcdef1!", "confirm_password": "Abcdef1!"}})
	fmt.Println(r.Status, r.Location, r.RespBody, r.HandlerErr, r.Panic, r.SessOut, r.Calls, r.Diff(), len(r.Mails), r.Logs)
	if len(r.Mails) > 0 {
		fmt.Println(r.Mails[0].Email.TextBody)
	}
}
