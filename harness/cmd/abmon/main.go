// Command abmon runs the monitor-driven check of one property.
//
//	abmon -prop C01 -tier quick -seed 1 -verif /verif -scratch /var/tmp/…
//
// The parent fans the check's work units out over worker processes (one virtual clock per
// process; a panic in one batch cannot take the other monitors down), merges what they observed,
// applies coverage floors and the known-findings file, writes evidence/<id>.json and exits
// 0 (held on what was observed) / 1 (VIOLATION line) / 2 (inconclusive).
package main

import (
	"context"
	"encoding/json"
	"flag"
	"fmt"
	"os"
	"os/exec"
	"path/filepath"
	"runtime"
	"sort"
	"strings"
	"sync"
	"time"

	"verif/checks"
	"verif/sim"
)

var outRoot string

type finding struct {
	Property  string `json:"property"`
	Signature string `json:"signature"`
	Status    string `json:"status"` // open | fixed
	Commit    string `json:"commit,omitempty"`
	What      string `json:"what"`
}

type knownFile struct {
	Findings []finding `json:"findings"`
	Fixed    []string  `json:"fixed"`
}

func main() {
	prop := flag.String("prop", "", "property id")
	tier := flag.String("tier", "quick", "quick|thorough")
	seed := flag.Int64("seed", 1, "seed")
	verif := flag.String("verif", "/verif", "verif root")
	scratch := flag.String("scratch", "", "scratch dir")
	worker := flag.Int("worker", -1, "worker index")
	workers := flag.Int("workers", 0, "worker count")
	out := flag.String("out", "", "worker output")
	replay := flag.String("replay", "", "replay file")
	outdir := flag.String("outdir", "", "where evidence/ and replays/ are written (default: the verif root)")
	flag.Parse()
	if *outdir == "" {
		*outdir = *verif
	}
	outRoot = *outdir

	ck := checks.Registry[*prop]
	if ck == nil {
		fmt.Printf("INCONCLUSIVE: no check registered for %q\n", *prop)
		os.Exit(2)
	}
	if *scratch == "" {
		*scratch = os.TempDir()
	}

	if *replay != "" {
		os.Exit(doReplay(ck, *replay, *verif, *scratch))
	}
	if *worker >= 0 {
		runWorker(ck, *tier, *seed, *worker, *workers, *out, *verif, *scratch)
		return
	}
	os.Exit(parent(ck, *tier, *seed, *verif, *scratch))
}

func runWorker(ck *checks.Check, tier string, seed int64, w, n int, out, verif, scratch string) {
	st := sim.NewStats()
	st.Known = loadKnown(verif, ck.ID)
	ctx := &checks.RunCtx{Seed: seed, Tier: tier, Stats: st, Verif: verif, Scratch: scratch}
	units := ck.Units(tier)
	cur := -1
	defer func() {
		if p := recover(); p != nil {
			st.Inconclusive = append(st.Inconclusive, fmt.Sprintf("worker %d panicked in unit %d: %v", w, cur, p))
			writeJSON(out, st)
			os.Exit(0)
		}
	}()
	for u := w; u < units; u += n {
		cur = u
		ck.Run(ctx, u)
	}
	writeJSON(out, st)
}

func loadKnown(verif, id string) map[string]bool {
	out := map[string]bool{}
	var kf knownFile
	if b, err := os.ReadFile(filepath.Join(verif, "known_findings.json")); err == nil {
		json.Unmarshal(b, &kf)
	}
	for _, f := range kf.Findings {
		if f.Status == "open" && f.Property == id {
			out[f.Signature] = true
		}
	}
	return out
}

func writeJSON(path string, v interface{}) {
	b, _ := json.Marshal(v)
	os.WriteFile(path, b, 0o644)
}

func parent(ck *checks.Check, tier string, seed int64, verif, scratch string) int {
	start := time.Now()
	if old, _ := filepath.Glob(filepath.Join(outRoot, "replays", ck.ID+"-*.json")); len(old) > 0 {
		for _, f := range old {
			os.Remove(f) // replay files describe the run that wrote them
		}
	}
	units := ck.Units(tier)
	n := runtime.NumCPU()
	if ck.Serial {
		n = 1
	}
	if n > units {
		n = units
	}
	if n < 1 {
		n = 1
	}
	limit := 12 * time.Minute
	if tier == "thorough" {
		limit = 90 * time.Minute
	}
	ctx, cancel := context.WithTimeout(context.Background(), limit)
	defer cancel()
	total := sim.NewStats()
	var mu sync.Mutex
	var wg sync.WaitGroup
	self, _ := os.Executable()
	for w := 0; w < n; w++ {
		wg.Add(1)
		go func(w int) {
			defer wg.Done()
			outp := filepath.Join(scratch, fmt.Sprintf("worker-%d.json", w))
			logp := filepath.Join(scratch, fmt.Sprintf("worker-%d.log", w))
			cmd := exec.CommandContext(ctx, self, "-prop", ck.ID, "-tier", tier, "-seed", fmt.Sprint(seed), "-worker", fmt.Sprint(w),
				"-workers", fmt.Sprint(n), "-out", outp, "-verif", verif, "-scratch", scratch)
			lf, _ := os.Create(logp)
			cmd.Stdout, cmd.Stderr = lf, lf
			if ck.ID == "C20" {
				cmd.Env = append(os.Environ(), "GORACE=halt_on_error=0 log_path="+filepath.Join(scratch, "race.log"))
			}
			err := cmd.Run()
			lf.Close()
			mu.Lock()
			defer mu.Unlock()
			b, rerr := os.ReadFile(outp)
			if rerr != nil {
				tail, _ := os.ReadFile(logp)
				msg := string(tail)
				if len(msg) > 1500 {
					msg = msg[len(msg)-1500:]
				}
				if full := string(tail); strings.Contains(full, "fatal error: concurrent map") && strings.Contains(full, "github.com/volatiletech/authboss/v3") {
					// the Go runtime killed the process: unsynchronised map access with library frames on the stack
					frame := ""
					for _, ln := range strings.Split(full, "\n") {
						if strings.HasPrefix(ln, "github.com/volatiletech/authboss/v3") {
							frame = strings.SplitN(ln, "(", 2)[0]
							break
						}
					}
					total.Violations = append(total.Violations, sim.VioRec{Violation: sim.Violation{Prop: ck.ID, Sig: ck.ID + "|process-crash|concurrent-map-access|" + frame,
						Msg: "the Go runtime aborted the process (fatal error: concurrent map access) with library code on the stack: " + frame}, Index: w, Detail: msg})
					return
				}
				if frame := libraryPanicFrame(string(tail)); frame != "" {
					// an unrecovered panic on a goroutine the library started itself (net/http recovers handler
					// panics only): the whole process — every other client's server — is gone
					total.Violations = append(total.Violations, sim.VioRec{Violation: sim.Violation{Prop: ck.ID, Sig: ck.ID + "|process-crash|panic-in-library-goroutine|" + frame,
						Msg: "an unrecovered panic whose innermost non-runtime frame is library code ended the process: " + frame}, Index: w, Detail: msg})
					return
				}
				head := ""
				for _, mark := range []string{"fatal error:", "\npanic:", "SIGSEGV", "unexpected signal", "runtime: "} {
					if k := strings.Index(string(tail), mark); k >= 0 {
						head = string(tail)[k:]
						if len(head) > 500 {
							head = head[:500]
						}
						break
					}
				}
				if head != "" {
					msg = "crash: " + head + " … " + msg
				}
				why := fmt.Sprintf("worker %d produced no result (%v)", w, err)
				if ctx.Err() != nil {
					why = fmt.Sprintf("worker %d hit the wall-clock watchdog (%s)", w, limit)
				}
				total.Inconclusive = append(total.Inconclusive, why+": "+msg)
				return
			}
			var st sim.Stats
			if json.Unmarshal(b, &st) != nil {
				total.Inconclusive = append(total.Inconclusive, fmt.Sprintf("worker %d wrote unreadable output", w))
				return
			}
			if st.Sigs == nil {
				st.Sigs = map[string]int{}
			}
			total.Merge(&st)
		}(w)
	}
	wg.Wait()

	if ck.ID == "C20" {
		lib, harnessOnly, totalReports := checks.C20RaceReports(scratch)
		total.Counters["race-reports-total"] = totalReports
		total.Counters["race-reports-harness-only"] = harnessOnly
		total.Counters["race-reports-library-distinct"] = len(lib)
		for _, key := range lib {
			total.Violations = append(total.Violations, sim.VioRec{Violation: sim.Violation{Prop: "C20", Sig: "C20|data-race|" + key,
				Msg: "the race detector reported a data race with library frames: " + key}, Index: 0, Detail: raceExcerpt(scratch, key)})
		}
		if harnessOnly > 0 {
			total.Inconclusive = append(total.Inconclusive, fmt.Sprintf("%d race report(s) without a library frame (harness bug?)", harnessOnly))
		}
	}

	// coverage floors
	floors := map[string]int{}
	if ck.Floors != nil {
		floors = ck.Floors(tier)
	}
	var fk []string
	for k := range floors {
		fk = append(fk, k)
	}
	sort.Strings(fk)
	for _, k := range fk {
		if total.Counters[k] < floors[k] {
			total.Inconclusive = append(total.Inconclusive, fmt.Sprintf("coverage floor not reached: %s = %d < %d", k, total.Counters[k], floors[k]))
		}
	}
	if total.Evaluations == 0 {
		total.Inconclusive = append(total.Inconclusive, "no evaluations at all")
	}

	// known findings
	var kf knownFile
	if b, err := os.ReadFile(filepath.Join(verif, "known_findings.json")); err == nil {
		json.Unmarshal(b, &kf)
	}
	open := map[string]finding{}
	for _, f := range kf.Findings {
		if f.Status == "open" && f.Property == ck.ID {
			open[f.Signature] = f
		}
	}
	knownSeen := map[string]int{}
	newBySig := map[string]sim.VioRec{}
	var newOrder []string
	for _, v := range total.Violations {
		if v.Prop != ck.ID {
			continue
		}
		if _, ok := open[v.Sig]; ok {
			knownSeen[v.Sig]++
			continue
		}
		if _, ok := newBySig[v.Sig]; !ok {
			newBySig[v.Sig] = v
			newOrder = append(newOrder, v.Sig)
		}
	}
	for k, n := range total.Counters {
		if strings.HasPrefix(k, "known:") {
			if sig := strings.TrimPrefix(k, "known:"); knownSeen[sig] < n {
				knownSeen[sig] = n
			}
		}
	}
	sort.Strings(newOrder)
	var ks []string
	for k := range knownSeen {
		ks = append(ks, k)
	}
	sort.Strings(ks)
	for _, k := range ks {
		fmt.Printf("KNOWN-FINDING: property=%s %s (signature %s, seen %d times this run)\n", ck.ID, open[k].What, k, knownSeen[k])
	}
	nviol := 0
	for _, sig := range newOrder {
		v := newBySig[sig]
		nviol++
		rp := filepath.Join(outRoot, "replays", fmt.Sprintf("%s-seed%d-unit%d.json", ck.ID, seed, v.Index))
		writeJSONIndent(rp, map[string]interface{}{"property": ck.ID, "tier": tier, "seed": seed, "unit": v.Index, "signature": v.Sig,
			"message": v.Msg, "step": v.Step, "config": json.RawMessage(orNull(v.Cfg)), "history": v.History, "detail": v.Detail})
		fmt.Printf("VIOLATION property=%s replay=%s\n", ck.ID, rp)
		fmt.Printf("  signature: %s\n  %s\n", v.Sig, v.Msg)
		h := v.History
		if len(h) > 12 {
			h = h[len(h)-12:]
		}
		for _, l := range h {
			fmt.Printf("    %s\n", l)
		}
	}

	wall := time.Since(start).Seconds()
	cov := map[string]interface{}{
		"evaluations":         total.Evaluations,
		"distinct_nontrivial": len(total.Sigs),
		"rule":                ck.Rule,
		"samples":             orEmpty(total.Samples),
		"units":               units,
		"histories":           total.Histories,
		"counters":            total.Counters,
		"floors":              floors,
		"top_signatures":      total.TopSigs(25),
		"known_findings_seen": knownSeen,
		"workers":             n,
	}
	if ck.Exhaustive {
		cov["exhaustive"] = true
	}
	for k, v := range total.Notes {
		cov["note_"+k] = v
	}
	if len(total.Inconclusive) > 0 {
		cov["inconclusive"] = total.Inconclusive
	}
	ev := map[string]interface{}{
		"property_id": ck.ID, "tier": tier, "seed": seed, "level": ck.Level, "coverage": cov,
		"assumptions": ck.Assumptions, "wall_s": wall, "violations": nviol,
	}
	writeJSONIndent(filepath.Join(outRoot, "evidence", ck.ID+".json"), ev)

	fmt.Printf("%s %s seed=%d: %d evaluations, %d distinct signatures, %d new violations, %d known findings, %.1fs\n",
		ck.ID, tier, seed, total.Evaluations, len(total.Sigs), nviol, len(knownSeen), wall)
	if nviol > 0 {
		return 1
	}
	if len(total.Inconclusive) > 0 {
		for _, m := range total.Inconclusive {
			fmt.Printf("INCONCLUSIVE: %s\n", strings.TrimSpace(m))
		}
		return 2
	}
	return 0
}

// raceExcerpt returns the first race report block mentioning the key's first frame.
func raceExcerpt(scratch, key string) string {
	first := strings.SplitN(key, " <-> ", 2)[0]
	files, _ := filepath.Glob(filepath.Join(scratch, "race.log.*"))
	for _, f := range files {
		b, err := os.ReadFile(f)
		if err != nil {
			continue
		}
		for _, blk := range strings.Split(string(b), "WARNING: DATA RACE")[1:] {
			if strings.Contains(blk, first) {
				if len(blk) > 4000 {
					blk = blk[:4000]
				}
				return "WARNING: DATA RACE" + blk
			}
		}
	}
	return ""
}

func orNull(s string) string {
	if s == "" {
		return "null"
	}
	return s
}

func orEmpty(s []interface{}) []interface{} {
	if s == nil {
		return []interface{}{"(no sample recorded)"}
	}
	return s
}

func writeJSONIndent(path string, v interface{}) {
	b, _ := json.MarshalIndent(v, "", " ")
	os.WriteFile(path, b, 0o644)
}

func doReplay(ck *checks.Check, file, verif, scratch string) int {
	b, err := os.ReadFile(file)
	if err != nil {
		fmt.Println("INCONCLUSIVE: cannot read replay file:", err)
		return 2
	}
	var rp struct {
		Tier string `json:"tier"`
		Seed int64  `json:"seed"`
		Unit int    `json:"unit"`
	}
	if json.Unmarshal(b, &rp) != nil {
		fmt.Println("INCONCLUSIVE: unreadable replay file")
		return 2
	}
	st := sim.NewStats()
	st.Known = map[string]bool{}
	ck.Run(&checks.RunCtx{Seed: rp.Seed, Tier: rp.Tier, Stats: st, Verif: verif, Scratch: scratch, Verbose: true}, rp.Unit)
	for _, v := range st.Violations {
		fmt.Printf("VIOLATION property=%s replay=%s\n  signature: %s\n  %s\n", ck.ID, file, v.Sig, v.Msg)
		for _, l := range v.History {
			fmt.Printf("    %s\n", l)
		}
		fmt.Printf("  detail: %s\n", v.Detail)
	}
	if len(st.Violations) > 0 {
		return 1
	}
	fmt.Printf("replay of %s unit %d: no violation (%d evaluations)\n", ck.ID, rp.Unit, st.Evaluations)
	return 0
}

// libraryPanicFrame inspects a crashed worker's output: if the process died of a Go panic and the innermost
// frame of the panicking goroutine that is neither runtime nor panic machinery belongs to the library, that
// frame is returned ("" otherwise: a panic that originates in harness code is the harness' problem).
func libraryPanicFrame(out string) string {
	i := strings.Index(out, "\npanic: ")
	if i < 0 && !strings.HasPrefix(out, "panic: ") {
		// a runtime throw ("fatal error: …") is judged the same way: by the crashing goroutine's innermost
		// frame outside the runtime
		if i = strings.Index(out, "fatal error: "); i < 0 {
			return ""
		}
	}
	if i < 0 {
		i = 0
	}
	rest := out[i:]
	j := strings.Index(rest, "\ngoroutine ")
	if j < 0 {
		return ""
	}
	for _, ln := range strings.Split(rest[j+1:], "\n")[1:] {
		if ln == "" {
			break
		}
		if strings.HasPrefix(ln, "\t") || strings.HasPrefix(ln, "panic(") || strings.HasPrefix(ln, "runtime.") || strings.HasPrefix(ln, "created by") {
			continue
		}
		if strings.HasPrefix(ln, "github.com/volatiletech/authboss/v3") {
			if k := strings.LastIndex(ln, "("); k > 0 {
				return ln[:k]
			}
			return ln
		}
		return ""
	}
	return ""
}
