module verif

go 1.20

require (
	github.com/anishathalye/porcupine v1.3.0
	github.com/pquerna/otp v1.4.0
	github.com/volatiletech/authboss/v3 v3.0.0
	golang.org/x/crypto v0.17.0
	golang.org/x/oauth2 v0.6.0
)

require (
	github.com/boombuler/barcode v1.0.1 // indirect
	github.com/friendsofgo/errors v0.9.2 // indirect
)

replace github.com/volatiletech/authboss/v3 => /repo
