module verif

go 1.20

require (
	github.com/anishathalye/porcupine v1.3.0
	github.com/pquerna/otp v1.4.0
	github.com/volatiletech/authboss/v3 v3.0.0
	golang.org/x/crypto v0.17.0
	golang.org/x/oauth2 v0.6.0
)

replace github.com/volatiletech/authboss/v3 => /repo
