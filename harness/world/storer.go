package world

import (
	"context"
	"sort"
	"strings"
	"sync"
	"time"

	"github.com/volatiletech/authboss/v3"
)

// Storer is a small in-memory database. Every Load*/New returns a deep copy; only
// Save/Create/SaveOAuth2/…RememberToken persist. Save of an unknown PID → ErrUserNotFound.
// Selector lookups never match an empty selector. Remember-token operations are atomic.
type Storer struct {
	mu     sync.Mutex
	users  map[string]*User
	tokens map[string][]string

	OneTime         bool           // hand out the TOTP replay-protecting user type
	ProfileKeys     []string       // the application's declared profile fields
	ZoneLess        bool           // timestamp columns keep no zone: wall-clock fields in, UTC out
	FoldPIDs        bool           // Load finds an account under any spelling that lower-cases to its identifier
	TypedNilOnMiss  bool           // Load answers a miss with a nil *User inside a non-nil interface next to ErrUserNotFound
	SeparateEmail   bool           // the user type keeps its e-mail address apart from the primary identifier (a username site): PutPID does not fill it
	PersistAll      bool           // PutArbitrary stores everything it is handed
	TimeLoc         *time.Location // Location of the timestamps handed out by Load* (nil: as stored)
	OAuth2Confirmed bool           // new OAuth2 users are created confirmed (as authboss-sample does)

	w *World
	// Hook, if set, is called at the start of every storer operation (scheduling jitter and
	// interleaving bookkeeping for the concurrent check; nil in the sequential monitors).
	Hook func(op, arg string)
}

// NewStandaloneStorer returns a storer that is not attached to a sequential World: no tracing,
// no fault injection; safe for concurrent use.
func NewStandaloneStorer() *Storer {
	return &Storer{users: map[string]*User{}, tokens: map[string][]string{}}
}

func (s *Storer) backend(op, arg string, write bool) error {
	if s.Hook != nil {
		s.Hook(op, arg)
	}
	if s.w == nil {
		return nil
	}
	return s.w.backend(op, arg, write)
}

func (s *Storer) noteResult(r string) {
	if s.w != nil {
		s.w.noteResult(r)
	}
}

func newStorer(w *World) *Storer {
	return &Storer{users: map[string]*User{}, tokens: map[string][]string{}, w: w}
}

func (s *Storer) wrap(u *User) authboss.User {
	if s.OneTime {
		return UserOT{u}
	}
	return u
}

func unwrap(u interface{}) *User {
	switch v := u.(type) {
	case *User:
		return v
	case UserOT:
		return v.User
	case *UserOT:
		return v.User
	}
	panic("world: foreign user type handed to the storer")
}

// --- direct (harness-side) access, never traced ---

// Put seeds or overwrites a record directly.
func (s *Storer) Put(u *User) {
	s.mu.Lock()
	defer s.mu.Unlock()
	s.users[u.PID] = u.Clone()
}

// Peek returns a copy of the stored record or nil.
func (s *Storer) Peek(pid string) *User {
	s.mu.Lock()
	defer s.mu.Unlock()
	if u, ok := s.users[pid]; ok {
		return u.Clone()
	}
	return nil
}

// Tokens returns a copy of the remember-token rows of pid.
func (s *Storer) Tokens(pid string) []string {
	s.mu.Lock()
	defer s.mu.Unlock()
	return append([]string(nil), s.tokens[pid]...)
}

// PutTokens seeds token rows.
func (s *Storer) PutTokens(pid string, t []string) {
	s.mu.Lock()
	defer s.mu.Unlock()
	s.tokens[pid] = append([]string(nil), t...)
}

// PIDs lists stored identifiers, sorted.
func (s *Storer) PIDs() []string {
	s.mu.Lock()
	defer s.mu.Unlock()
	var out []string
	for k := range s.users {
		out = append(out, k)
	}
	sort.Strings(out)
	return out
}

// Snapshot is a deep copy of the whole database.
type Snapshot struct {
	Users  map[string]*User
	Tokens map[string][]string
}

func (s *Storer) Snapshot() *Snapshot {
	s.mu.Lock()
	defer s.mu.Unlock()
	sn := &Snapshot{Users: map[string]*User{}, Tokens: map[string][]string{}}
	for k, u := range s.users {
		sn.Users[k] = u.Clone()
	}
	for k, t := range s.tokens {
		if len(t) > 0 {
			sn.Tokens[k] = append([]string(nil), t...)
		}
	}
	return sn
}

func (s *Storer) Restore(sn *Snapshot) {
	s.mu.Lock()
	defer s.mu.Unlock()
	s.users = map[string]*User{}
	s.tokens = map[string][]string{}
	for k, u := range sn.Users {
		s.users[k] = u.Clone()
	}
	for k, t := range sn.Tokens {
		s.tokens[k] = append([]string(nil), t...)
	}
}

// Change is one field-level difference between two snapshots.
type Change struct {
	PID   string
	Field string // field name, "<created>", "<deleted>", or "token+"/"token-"
	Old   string
	New   string
}

// Diff lists every difference between a and b, sorted.
func Diff(a, b *Snapshot) []Change {
	var out []Change
	pids := map[string]bool{}
	for k := range a.Users {
		pids[k] = true
	}
	for k := range b.Users {
		pids[k] = true
	}
	var keys []string
	for k := range pids {
		keys = append(keys, k)
	}
	sort.Strings(keys)
	for _, pid := range keys {
		ua, ub := a.Users[pid], b.Users[pid]
		switch {
		case ua == nil:
			out = append(out, Change{PID: pid, Field: "<created>"})
		case ub == nil:
			out = append(out, Change{PID: pid, Field: "<deleted>"})
		default:
			fa, fb := ua.Fields(), ub.Fields()
			names := map[string]bool{}
			for k := range fa {
				names[k] = true
			}
			for k := range fb {
				names[k] = true
			}
			var ns []string
			for k := range names {
				ns = append(ns, k)
			}
			sort.Strings(ns)
			for _, n := range ns {
				if fa[n] != fb[n] {
					out = append(out, Change{PID: pid, Field: n, Old: fa[n], New: fb[n]})
				}
			}
		}
	}
	tp := map[string]bool{}
	for k := range a.Tokens {
		tp[k] = true
	}
	for k := range b.Tokens {
		tp[k] = true
	}
	keys = keys[:0]
	for k := range tp {
		keys = append(keys, k)
	}
	sort.Strings(keys)
	for _, pid := range keys {
		ma := map[string]int{}
		for _, t := range a.Tokens[pid] {
			ma[t]++
		}
		for _, t := range b.Tokens[pid] {
			ma[t]--
		}
		var ts []string
		for t := range ma {
			ts = append(ts, t)
		}
		sort.Strings(ts)
		for _, t := range ts {
			switch {
			case ma[t] > 0:
				out = append(out, Change{PID: pid, Field: "token-", Old: t})
			case ma[t] < 0:
				out = append(out, Change{PID: pid, Field: "token+", New: t})
			}
		}
	}
	return out
}

// --- authboss.ServerStorer and friends (traced, fault-injectable) ---

func (s *Storer) Load(ctx context.Context, key string) (authboss.User, error) {
	if err := s.backend("Load", key, false); err != nil {
		return nil, err
	}
	s.mu.Lock()
	defer s.mu.Unlock()
	u, ok := s.users[key]
	if !ok && s.FoldPIDs {
		// a case-insensitive collation on the identifier column: the lookup is not byte-exact
		for pid, c := range s.users {
			if strings.ToLower(pid) == strings.ToLower(key) {
				u, ok = c, true
				break
			}
		}
	}
	if !ok {
		s.noteResult("notfound")
		if s.TypedNilOnMiss {
			// the classic Go storer: `var u *User; err := db.Get(u, ...); return u, err` — the interface it
			// hands back on a miss is not nil (it holds a nil *User), the error says what happened
			var none *User
			return none, authboss.ErrUserNotFound
		}
		return nil, authboss.ErrUserNotFound
	}
	return s.wrap(s.prep(u.Clone())), nil
}

func (s *Storer) prep(u *User) *User {
	u.profileKeys = s.ProfileKeys
	u.persistAll = s.PersistAll
	u.separateEmail = s.SeparateEmail
	if s.TimeLoc != nil {
		// like a database driver that hands timestamps back in the connection's zone: same instants,
		// another Location
		for _, t := range []*time.Time{&u.LastAttempt, &u.Locked, &u.RecoverExpiry, &u.OAuth2Expiry} {
			if !t.IsZero() {
				*t = t.In(s.TimeLoc)
			}
		}
	}
	if s.w != nil {
		u.onArbitrary = s.w.noteArbitrary
	}
	return u
}

func (s *Storer) Save(ctx context.Context, user authboss.User) error {
	u := unwrap(user)
	if err := s.backend("Save", u.PID, true); err != nil {
		return err
	}
	s.mu.Lock()
	defer s.mu.Unlock()
	if _, ok := s.users[u.PID]; !ok {
		s.noteResult("notfound")
		return authboss.ErrUserNotFound
	}
	c := u.Clone()
	s.stripZones(c)
	s.users[u.PID] = c
	return nil
}

func (s *Storer) New(ctx context.Context) authboss.User {
	return s.wrap(s.prep(&User{}))
}

func (s *Storer) Create(ctx context.Context, user authboss.User) error {
	u := unwrap(user)
	if err := s.backend("Create", u.PID, true); err != nil {
		return err
	}
	s.mu.Lock()
	defer s.mu.Unlock()
	if _, ok := s.users[u.PID]; ok {
		s.noteResult("found")
		return authboss.ErrUserFound
	}
	cc := u.Clone()
	s.stripZones(cc)
	s.users[u.PID] = cc
	return nil
}

func (s *Storer) LoadByConfirmSelector(ctx context.Context, selector string) (authboss.ConfirmableUser, error) {
	if err := s.backend("LoadByConfirmSelector", selector, false); err != nil {
		return nil, err
	}
	s.mu.Lock()
	defer s.mu.Unlock()
	if selector != "" {
		for _, pid := range s.sortedLocked() {
			if u := s.users[pid]; u.ConfirmSelector == selector {
				return s.wrap(s.prep(u.Clone())).(authboss.ConfirmableUser), nil
			}
		}
	}
	s.noteResult("notfound")
	return nil, authboss.ErrUserNotFound
}

func (s *Storer) LoadByRecoverSelector(ctx context.Context, selector string) (authboss.RecoverableUser, error) {
	if err := s.backend("LoadByRecoverSelector", selector, false); err != nil {
		return nil, err
	}
	s.mu.Lock()
	defer s.mu.Unlock()
	if selector != "" {
		for _, pid := range s.sortedLocked() {
			if u := s.users[pid]; u.RecoverSelector == selector {
				return s.wrap(s.prep(u.Clone())).(authboss.RecoverableUser), nil
			}
		}
	}
	s.noteResult("notfound")
	return nil, authboss.ErrUserNotFound
}

func (s *Storer) sortedLocked() []string {
	var out []string
	for k := range s.users {
		out = append(out, k)
	}
	sort.Strings(out)
	return out
}

func (s *Storer) NewFromOAuth2(ctx context.Context, provider string, details map[string]string) (authboss.OAuth2User, error) {
	if err := s.backend("NewFromOAuth2", provider+"|"+details["uid"], false); err != nil {
		return nil, err
	}
	s.mu.Lock()
	defer s.mu.Unlock()
	pid := authboss.MakeOAuth2PID(provider, details["uid"])
	if u, ok := s.users[pid]; ok {
		return s.wrap(s.prep(u.Clone())).(authboss.OAuth2User), nil
	}
	u := &User{PID: pid, OAuth2UID: details["uid"], OAuth2Provider: provider, Email: details["email"], Confirmed: s.OAuth2Confirmed}
	return s.wrap(s.prep(u)).(authboss.OAuth2User), nil
}

func (s *Storer) SaveOAuth2(ctx context.Context, user authboss.OAuth2User) error {
	u := unwrap(user)
	pid := authboss.MakeOAuth2PID(u.OAuth2Provider, u.OAuth2UID)
	if err := s.backend("SaveOAuth2", pid, true); err != nil {
		return err
	}
	s.mu.Lock()
	defer s.mu.Unlock()
	c := u.Clone()
	s.stripZones(c)
	c.PID = pid
	u.PID = pid
	s.users[pid] = c
	return nil
}

func (s *Storer) AddRememberToken(ctx context.Context, pid, token string) error {
	if err := s.backend("AddRememberToken", pid, true); err != nil {
		return err
	}
	s.mu.Lock()
	defer s.mu.Unlock()
	s.tokens[pid] = append(s.tokens[pid], token)
	return nil
}

func (s *Storer) DelRememberTokens(ctx context.Context, pid string) error {
	if err := s.backend("DelRememberTokens", pid, true); err != nil {
		return err
	}
	s.mu.Lock()
	defer s.mu.Unlock()
	delete(s.tokens, pid)
	return nil
}

func (s *Storer) UseRememberToken(ctx context.Context, pid, token string) error {
	if err := s.backend("UseRememberToken", pid, true); err != nil {
		return err
	}
	s.mu.Lock()
	defer s.mu.Unlock()
	for i, t := range s.tokens[pid] {
		if t == token {
			s.tokens[pid] = append(append([]string(nil), s.tokens[pid][:i]...), s.tokens[pid][i+1:]...)
			return nil
		}
	}
	s.noteResult("notfound")
	return authboss.ErrTokenNotFound
}

// stripZones models zone-less timestamp columns (timestamp without time zone, SQLite text, a
// hand-written mapper): what is stored is the wall-clock reading of the value handed in, and it is
// read back as UTC. Harmless for values that are UTC already.
func (s *Storer) stripZones(u *User) {
	if !s.ZoneLess {
		return
	}
	for _, t := range []*time.Time{&u.LastAttempt, &u.Locked, &u.RecoverExpiry, &u.OAuth2Expiry} {
		if !t.IsZero() {
			*t = time.Date(t.Year(), t.Month(), t.Day(), t.Hour(), t.Minute(), t.Second(), t.Nanosecond(), time.UTC)
		}
	}
}
