package world

import (
	"context"
	"encoding/json"
	"errors"
	"fmt"
	"io"
	"net/http"
	"net/url"
	"strings"

	"golang.org/x/oauth2"
)

// Identity is what the fake identity provider knows about a person.
type Identity struct {
	Provider string
	UID      string
	Email    string
}

// Provider is an in-memory OAuth2 identity provider. It is reached through the
// oauth2.HTTPClient value of the request context (no network). Its tables are the ground
// truth for "which identity did the provider report".
type Provider struct {
	n      int
	codes  map[string]Identity // authorization code → identity (single use)
	tokens map[string]Identity // access token → identity
	// Exchanges counts token-endpoint hits (evidence).
	Exchanges int
	// LastReported is the identity returned by the most recent FindUserDetails call.
	LastReported *Identity
}

func newProvider() *Provider {
	return &Provider{codes: map[string]Identity{}, tokens: map[string]Identity{}}
}

func (p *Provider) clone() *Provider {
	c := newProvider()
	c.n, c.Exchanges = p.n, p.Exchanges
	for k, v := range p.codes {
		c.codes[k] = v
	}
	for k, v := range p.tokens {
		c.tokens[k] = v
	}
	return c
}

func (p *Provider) restore(s *Provider) {
	c := s.clone()
	p.n, p.Exchanges, p.codes, p.tokens, p.LastReported = c.n, c.Exchanges, c.codes, c.tokens, nil
}

// Authorize models the person consenting at the provider; the returned code is what the
// provider appends to the callback URL.
func (p *Provider) Authorize(id Identity) string {
	p.n++
	code := fmt.Sprintf("code-%s-%d", id.Provider, p.n)
	p.codes[code] = id
	return code
}

// RoundTrip is the token endpoint.
func (p *Provider) RoundTrip(r *http.Request) (*http.Response, error) {
	p.Exchanges++
	host := r.URL.Host
	prov := strings.TrimSuffix(host, ".idp.test")
	body, _ := io.ReadAll(r.Body)
	form, _ := url.ParseQuery(string(body))
	code := form.Get("code")
	id, ok := p.codes[code]
	if !ok || id.Provider != prov || form.Get("client_id") != "cid-"+prov {
		return jsonResp(400, map[string]string{"error": "invalid_grant"}), nil
	}
	delete(p.codes, code)
	p.n++
	at := fmt.Sprintf("at-%s-%d", prov, p.n)
	p.tokens[at] = id
	return jsonResp(200, map[string]interface{}{"access_token": at, "token_type": "bearer", "expires_in": 3600}), nil
}

func jsonResp(code int, v interface{}) *http.Response {
	b, _ := json.Marshal(v)
	return &http.Response{
		StatusCode: code, Status: fmt.Sprintf("%d", code),
		Header: http.Header{"Content-Type": []string{"application/json"}},
		Body:   io.NopCloser(strings.NewReader(string(b))),
	}
}

func (p *Provider) findUserDetails(ctx context.Context, cfg oauth2.Config, tok *oauth2.Token) (map[string]string, error) {
	id, ok := p.tokens[tok.AccessToken]
	if !ok {
		return nil, errors.New("provider: unknown access token")
	}
	p.LastReported = &id
	return map[string]string{"uid": id.UID, "email": id.Email}, nil
}
