package world

import (
	"sort"
	"time"
)

// User is the application's user record. It implements every user interface of authboss
// (authable, confirmable, lockable, recoverable (+secondary e-mails), arbitrary, oauth2, otp,
// totp, sms). The TOTP replay-protecting variant is UserOT.
type User struct {
	PID      string
	Email    string
	Password string

	Confirmed       bool
	ConfirmSelector string
	ConfirmVerifier string

	AttemptCount int
	LastAttempt  time.Time
	Locked       time.Time

	RecoverSelector string
	RecoverVerifier string
	RecoverExpiry   time.Time
	Secondary       []string

	OAuth2UID      string
	OAuth2Provider string
	OAuth2Access   string
	OAuth2Refresh  string
	OAuth2Expiry   time.Time

	OTPs          string
	TOTPSecretKey string
	TOTPLastCode  string
	SMSPhone      string
	RecoveryCodes string

	// Arbitrary holds only the application's declared profile keys (see Storer.ProfileKeys).
	Arbitrary map[string]string

	onArbitrary   func(map[string]string)
	profileKeys   []string
	persistAll    bool // an application that stores the whole map it is handed (it relies on the whitelist)
	separateEmail bool // the e-mail address is a profile field of its own, not the primary identifier
}

// Clone returns a deep copy.
func (u *User) Clone() *User {
	c := *u
	if u.Secondary != nil {
		c.Secondary = append([]string(nil), u.Secondary...)
	}
	if u.Arbitrary != nil {
		c.Arbitrary = make(map[string]string, len(u.Arbitrary))
		for k, v := range u.Arbitrary {
			c.Arbitrary[k] = v
		}
	}
	return &c
}

// Fields returns every stored field as name→string (used by diffs and by the secret scanner).
func (u *User) Fields() map[string]string {
	m := map[string]string{
		"PID": u.PID, "Email": u.Email, "Password": u.Password,
		"Confirmed":       boolStr(u.Confirmed),
		"ConfirmSelector": u.ConfirmSelector, "ConfirmVerifier": u.ConfirmVerifier,
		"AttemptCount":    itoa(u.AttemptCount),
		"LastAttempt":     timeStr(u.LastAttempt),
		"Locked":          timeStr(u.Locked),
		"RecoverSelector": u.RecoverSelector, "RecoverVerifier": u.RecoverVerifier,
		"RecoverExpiry": timeStr(u.RecoverExpiry),
		"OAuth2UID":     u.OAuth2UID, "OAuth2Provider": u.OAuth2Provider,
		"OAuth2Access": u.OAuth2Access, "OAuth2Refresh": u.OAuth2Refresh,
		"OAuth2Expiry": timeStr(u.OAuth2Expiry),
		"OTPs":         u.OTPs, "TOTPSecretKey": u.TOTPSecretKey, "TOTPLastCode": u.TOTPLastCode,
		"SMSPhone": u.SMSPhone, "RecoveryCodes": u.RecoveryCodes,
	}
	for i, s := range u.Secondary {
		m["Secondary."+itoa(i)] = s
	}
	keys := make([]string, 0, len(u.Arbitrary))
	for k := range u.Arbitrary {
		keys = append(keys, k)
	}
	sort.Strings(keys)
	for _, k := range keys {
		m["Arbitrary."+k] = u.Arbitrary[k]
	}
	return m
}

func boolStr(b bool) string {
	if b {
		return "true"
	}
	return "false"
}

func timeStr(t time.Time) string {
	if t.IsZero() {
		return ""
	}
	return t.UTC().Format(time.RFC3339Nano)
}

func itoa(i int) string {
	if i == 0 {
		return "0"
	}
	neg := i < 0
	if neg {
		i = -i
	}
	var b [20]byte
	p := len(b)
	for i > 0 {
		p--
		b[p] = byte('0' + i%10)
		i /= 10
	}
	if neg {
		p--
		b[p] = '-'
	}
	return string(b[p:])
}

// --- authboss.User / AuthableUser
func (u *User) GetPID() string { return u.PID }
func (u *User) PutPID(s string) {
	u.PID = s
	if u.Email == "" && !u.separateEmail {
		u.Email = s // as in authboss-sample: the primary identifier is the e-mail address
	}
}
func (u *User) GetPassword() string  { return u.Password }
func (u *User) PutPassword(s string) { u.Password = s }

// --- ConfirmableUser
func (u *User) GetEmail() string            { return u.Email }
func (u *User) PutEmail(s string)           { u.Email = s }
func (u *User) GetConfirmed() bool          { return u.Confirmed }
func (u *User) PutConfirmed(b bool)         { u.Confirmed = b }
func (u *User) GetConfirmSelector() string  { return u.ConfirmSelector }
func (u *User) PutConfirmSelector(s string) { u.ConfirmSelector = s }
func (u *User) GetConfirmVerifier() string  { return u.ConfirmVerifier }
func (u *User) PutConfirmVerifier(s string) { u.ConfirmVerifier = s }

// --- LockableUser
func (u *User) GetAttemptCount() int       { return u.AttemptCount }
func (u *User) PutAttemptCount(i int)      { u.AttemptCount = i }
func (u *User) GetLastAttempt() time.Time  { return u.LastAttempt }
func (u *User) PutLastAttempt(t time.Time) { u.LastAttempt = t }
func (u *User) GetLocked() time.Time       { return u.Locked }
func (u *User) PutLocked(t time.Time)      { u.Locked = t }

// --- RecoverableUser (+ secondary e-mails)
func (u *User) GetRecoverSelector() string   { return u.RecoverSelector }
func (u *User) PutRecoverSelector(s string)  { u.RecoverSelector = s }
func (u *User) GetRecoverVerifier() string   { return u.RecoverVerifier }
func (u *User) PutRecoverVerifier(s string)  { u.RecoverVerifier = s }
func (u *User) GetRecoverExpiry() time.Time  { return u.RecoverExpiry }
func (u *User) PutRecoverExpiry(t time.Time) { u.RecoverExpiry = t }
func (u *User) GetSecondaryEmails() []string { return append([]string(nil), u.Secondary...) }

// --- OAuth2User
func (u *User) IsOAuth2User() bool             { return u.OAuth2UID != "" || u.OAuth2Provider != "" }
func (u *User) GetOAuth2UID() string           { return u.OAuth2UID }
func (u *User) PutOAuth2UID(s string)          { u.OAuth2UID = s }
func (u *User) GetOAuth2Provider() string      { return u.OAuth2Provider }
func (u *User) PutOAuth2Provider(s string)     { u.OAuth2Provider = s }
func (u *User) GetOAuth2AccessToken() string   { return u.OAuth2Access }
func (u *User) PutOAuth2AccessToken(s string)  { u.OAuth2Access = s }
func (u *User) GetOAuth2RefreshToken() string  { return u.OAuth2Refresh }
func (u *User) PutOAuth2RefreshToken(s string) { u.OAuth2Refresh = s }
func (u *User) GetOAuth2Expiry() time.Time     { return u.OAuth2Expiry }
func (u *User) PutOAuth2Expiry(t time.Time)    { u.OAuth2Expiry = t }

// --- otp.User, twofactor.User, totp2fa.User, sms2fa.User
func (u *User) GetOTPs() string            { return u.OTPs }
func (u *User) PutOTPs(s string)           { u.OTPs = s }
func (u *User) GetRecoveryCodes() string   { return u.RecoveryCodes }
func (u *User) PutRecoveryCodes(s string)  { u.RecoveryCodes = s }
func (u *User) GetTOTPSecretKey() string   { return u.TOTPSecretKey }
func (u *User) PutTOTPSecretKey(s string)  { u.TOTPSecretKey = s }
func (u *User) GetSMSPhoneNumber() string  { return u.SMSPhone }
func (u *User) PutSMSPhoneNumber(s string) { u.SMSPhone = s }
func (u *User) GetArbitrary() map[string]string {
	m := map[string]string{}
	for k, v := range u.Arbitrary {
		m[k] = v
	}
	return m
}

// PutArbitrary follows the documented practice: it keeps only the application's declared
// profile keys. The whole map it was handed is recorded by the storer (see Storer.New).
func (u *User) PutArbitrary(m map[string]string) {
	if u.onArbitrary != nil {
		u.onArbitrary(m)
	}
	if u.Arbitrary == nil {
		u.Arbitrary = map[string]string{}
	}
	if u.persistAll {
		for k, v := range m {
			u.Arbitrary[k] = v
		}
		return
	}
	for _, k := range u.profileKeys {
		if v, ok := m[k]; ok {
			u.Arbitrary[k] = v
		}
	}
}

// UserOT is the replay-protecting variant (implements totp2fa.UserOneTime).
type UserOT struct{ *User }

func (u UserOT) GetTOTPLastCode() string  { return u.User.TOTPLastCode }
func (u UserOT) PutTOTPLastCode(s string) { u.User.TOTPLastCode = s }
