// Package world wires a real authboss instance (real router, body reader, responder, redirector,
// JSON renderer, event system, client-state writer and every module) to harness-owned backends:
// a copying in-memory storer, a server-side session store, a real-cookie store, mail/SMS
// outboxes, a log capture and a fake OAuth2 provider reached through the request context.
package world

import (
	"bytes"
	"context"
	"crypto/sha256"
	"encoding/hex"
	"encoding/json"
	"errors"
	"fmt"
	"io"
	"net/http"
	"net/http/httptest"
	"net/url"
	"runtime/debug"
	"sort"
	"strings"
	"time"

	"github.com/pquerna/otp/totp"
	"github.com/volatiletech/authboss/v3"
	_ "github.com/volatiletech/authboss/v3/auth"
	"github.com/volatiletech/authboss/v3/confirm"
	"github.com/volatiletech/authboss/v3/defaults"
	"github.com/volatiletech/authboss/v3/expire"
	"github.com/volatiletech/authboss/v3/lock"
	_ "github.com/volatiletech/authboss/v3/logout"
	_ "github.com/volatiletech/authboss/v3/oauth2"
	_ "github.com/volatiletech/authboss/v3/otp"
	"github.com/volatiletech/authboss/v3/otp/twofactor"
	"github.com/volatiletech/authboss/v3/otp/twofactor/sms2fa"
	"github.com/volatiletech/authboss/v3/otp/twofactor/totp2fa"
	_ "github.com/volatiletech/authboss/v3/recover"
	_ "github.com/volatiletech/authboss/v3/register"
	"github.com/volatiletech/authboss/v3/remember"
	"github.com/volatiletech/authboss/v3/verifclock"
	"golang.org/x/oauth2"
)

// Cfg is one configuration point.
type Cfg struct {
	Modules   []string // load order; subset of auth confirm lock logout oauth2 otp recover register remember
	TwoFA     []string // setup order; subset of totp sms
	UseExpire bool     // expire.Setup + expire.Middleware (without remember.Middleware unless RememberBeforeExpire)
	// RememberBeforeExpire installs remember.Middleware outside expire.Middleware (LoadClientState →
	// remember → expire → application): a remembered browser whose session idled out is anonymous on the
	// expired request and re-authenticated from its cookie on the next one.
	RememberBeforeExpire bool
	JSON                 bool // API mode: JSON bodies in, JSON "redirects" out
	Mount                string

	RecoverLogin    bool
	TwoFAEmail      bool
	OneTimeTOTP     bool
	OAuth2Confirmed bool
	Secondary       bool // accounts carry a secondary e-mail address

	LockAfter    int
	LockWindow   time.Duration
	LockDuration time.Duration
	ExpireAfter  time.Duration
	RecoverTTL   time.Duration

	Whitelist        []string
	LogoutMethod     string
	Err500           bool // error handler that writes a 500 instead of the silent default
	OnUnauthed       int  // authboss.MWRespondOnFailure for the library's own protected routes
	Providers        []string
	ProfileKeys      []string // application's declared profile fields (PutArbitrary keeps only these)
	RegWhitelist     []string // body reader whitelist for the register page (nil = shipped default)
	StoreTZ          int      // seconds east of UTC of the timestamps the storer hands out (0: as stored)
	NilSessionState  bool     // the session store answers a nil state for requests without a stored session
	Localizer        string   // "" none | "empty": a catalogue without any entry (answers "" for every key, as the interface prescribes for missing keys) | "partial": entries for about half of the keys
	decoy            bool     // this World is the second instance created next to another one
	PreserveFields   []string // Modules.RegisterPreserveFields
	CustomHasher     bool     // Config.Core.Hasher is the application's own salted-SHA hasher (own error values), not the shipped bcrypt one
	FoldPIDs         bool     // the storer looks identifiers up case-insensitively (a *_ci collation, citext)
	AppHooksFirst    bool     // the application registers its event listeners before it initialises the modules
	ZoneLessStore    bool     // the storer's timestamp columns keep no zone
	ClockZone        int      // seconds east of UTC of the server process' local zone (what time.Now() carries)
	ExpireSetupFirst bool     // expire.Setup is called before Authboss.Init (its event hooks run before the modules')
	TwoFASetupFirst  bool     // the 2FA modules' Setup() is called before Authboss.Init (the README prescribes no order)
	AccessLog        string   // "" none | "current" | "load": application middleware between LoadClientState and expire/remember that resolves the visitor through ab.CurrentUser / ab.LoadCurrentUser (an access log, a data injector) and ignores the outcome
	StreamBodies     bool     // the application's pages stream their bodies with io.Copy instead of calling WriteHeader/Write
	BCryptCost       int      // Modules.BCryptCost (0: 4, the cost of every seeded hash); 5 = the cost was raised after the accounts were created
	AppendedRules    bool     // the application appended rules of its own to the shipped body reader's login / recover_start / register rulesets
	SeparateEmail    bool     // a username site: the user type's e-mail address is not derived from the primary identifier (new accounts have none until the profile is filled in)
	AllowWSPasswords bool     // the application's password rule allows whitespace (pass-phrases)
	PersistArbitrary bool     // the user type stores every key PutArbitrary hands it (only sensible with an explicit RegWhitelist)
}

func (c Cfg) Has(mod string) bool {
	for _, m := range c.Modules {
		if m == mod {
			return true
		}
	}
	return false
}

func (c Cfg) Has2FA(kind string) bool {
	for _, m := range c.TwoFA {
		if m == kind {
			return true
		}
	}
	return false
}

func (c Cfg) String() string {
	b, _ := json.Marshal(c)
	return string(b)
}

// Redirect targets are all distinct so outcomes can be told apart.
const (
	PathLoginOK      = "/ok/login"
	PathConfirmOK    = "/ok/confirm"
	PathConfirmNotOK = "/notok/confirm"
	PathLockNotOK    = "/notok/lock"
	PathLogoutOK     = "/ok/logout"
	PathOAuth2OK     = "/ok/oauth2"
	PathOAuth2NotOK  = "/notok/oauth2"
	PathRecoverOK    = "/ok/recover"
	PathRegisterOK   = "/ok/register"
	PathNotAuth      = "/notok/auth"
	Path2FAEmail     = "/notok/2faemail"
	RootURL          = "https://site.test"
)

// SessionKeys is every session key the library uses plus the application's own.
var SessionKeys = []string{
	"uid", "halfauth", "last_action", "twofactor", "twofactor_auth_token", "twofactor_authed", "twofactor_authed_pid",
	"oauth2_state", "oauth2_params", "totp_secret", "totp_pending", "sms_number", "sms_secret",
	"sms_last", "sms_pending", "sms_secret_number", "flash_success", "flash_error", "app_theme", "app_lang", "app_cart", "app_uid", "app_twofactor_hint", "xhalfauthx",
}

// Call is one traced backend call of a request.
type Call struct {
	Seq    int
	Op     string
	Arg    string
	Write  bool
	Result string // "", "notfound", "found", "fault:<kind>"
}

// Mail is a delivered e-mail.
type Mail struct {
	Seq   int
	Email authboss.Email
}

// SMSMsg is a delivered text message.
type SMSMsg struct {
	Seq    int
	Number string
	Text   string
}

// Probe is what the downstream application handler saw.
type Probe struct {
	Ran     bool
	Route   string
	UID     string
	UserPID string
	UserErr string
	Sess    map[string]string
}

// Rec is everything observable about one request (or one admin operation).
type Rec struct {
	Kind      string // "http" | "admin"
	Browser   int
	Method    string
	Target    string
	Body      string
	CT        string
	CookiesIn map[string]string
	SessIn    map[string]string

	Calls       []Call
	SessWrites  [][]Event
	SessWriteAt []int
	CookWrites  [][]Event
	CookWriteAt []int
	Mails       []Mail
	SMS         []SMSMsg
	Logs        []string
	Arbitrary   []map[string]string

	HandlerErr   string
	DecoyCalls   int    // backend calls this request caused on the OTHER instance of the process (must be 0)
	Wrote        bool   // the application stack released a status line or body bytes to the client
	AppHook      string // "<event>:<mode>" when an armed application listener fired in this request
	HandlerRan   bool
	HandlerStart int // value of the global sequence counter when the wrapped route handler began
	Panic        string
	PanicStack   string
	Probe        Probe
	Status       int
	Header       http.Header
	RespBody     string
	JSON         map[string]interface{}
	Location     string // Location header or JSON "location"
	SessOut      map[string]string
	CookiesOut   map[string]string
	Before       *Snapshot
	After        *Snapshot
	Now          time.Time
	AdminErr     string
	FaultsFired  int
}

// Diff is the storage delta of this request.
func (r *Rec) Diff() []Change { return Diff(r.Before, r.After) }

// Req describes a request symbolically enough to build it.
type Req struct {
	Method string
	Path   string // path below the site root, may include ?query
	Form   map[string]string
	Pairs  [][2]string // ordered key/value pairs (duplicates allowed); used instead of Form if set
	Raw    *string     // raw body, overrides Form/Pairs
	CT     string      // content type override
	NoCT   bool
	Hdr    map[string]string // further request headers (what browsers, proxies and CDNs add of their own accord)
}

// World is one authboss instance and its surroundings. Not goroutine safe (sequential monitor).
type World struct {
	Cfg   Cfg
	AB    *authboss.Authboss
	Store *Storer
	Sess  *SessionStore
	Cook  *CookieStore
	Prov  *Provider
	Lock  *lock.Lock
	Conf  *confirm.Confirm

	Mails []Mail
	SMSs  []SMSMsg
	Logs  []string

	Faults   map[int]error    // fault plan for the next request: index among faultable calls → error
	FaultOps map[string]error // fault plan by operation name (first occurrence in the next request)
	// Yield is an interleaving plan for the next request: before its i-th faultable backend call the
	// function runs (typically another browser's whole request), then the call proceeds. YieldedAt
	// lists the operations at which a plan entry actually fired.
	Yield     map[int]func()
	decoy     *World // the second instance created next to this one (nil: none)
	quiet     bool   // backend calls made by the application's own middleware: not recorded, not faultable
	YieldedAt []string
	// HookMode arms the application's event listeners for the next request ("handled" | "error").
	HookMode string
	FailSMS  bool
	handler  http.Handler
	cur      *Rec
	seq      int
	fidx     int
	now      time.Time
	sidSalt  string
	SendMail bool
}

var epoch = time.Date(2031, 3, 14, 9, 26, 53, 0, time.UTC)

func init() {
	// the TOTP dependency's clock (see cmd/instrument): same virtual clock as the library's
	totp.VerifClock = verifclock.Now
}

// New builds and initialises a world.
func New(cfg Cfg, salt string) (w *World, err error) {
	defer func() {
		if r := recover(); r != nil {
			err = fmt.Errorf("world.New panicked: %v", r)
		}
	}()
	w = &World{Cfg: cfg, sidSalt: salt, now: epoch}
	if cfg.ClockZone != 0 {
		w.now = epoch.In(time.FixedZone("srv", cfg.ClockZone)) // the same instant, as a server in that zone reads it
	}
	verifclock.Set(w.now)
	w.Store = newStorer(w)
	w.Store.OneTime = cfg.OneTimeTOTP
	w.Store.ProfileKeys = cfg.ProfileKeys
	w.Store.PersistAll = cfg.PersistArbitrary
	w.Store.SeparateEmail = cfg.SeparateEmail
	w.Store.FoldPIDs = cfg.FoldPIDs
	w.Store.ZoneLess = cfg.ZoneLessStore
	if cfg.StoreTZ != 0 {
		w.Store.TimeLoc = time.FixedZone("db", cfg.StoreTZ)
	}
	w.Store.OAuth2Confirmed = cfg.OAuth2Confirmed
	w.Sess = newSessionStore(w)
	w.Sess.NilWhenAbsent = cfg.NilSessionState
	w.Cook = &CookieStore{w: w}
	w.Prov = newProvider()

	ab := authboss.New()
	w.AB = ab
	ab.Config.Paths.Mount = cfg.Mount
	ab.Config.Paths.RootURL = RootURL
	ab.Config.Paths.AuthLoginOK = PathLoginOK
	ab.Config.Paths.ConfirmOK = PathConfirmOK
	ab.Config.Paths.ConfirmNotOK = PathConfirmNotOK
	ab.Config.Paths.LockNotOK = PathLockNotOK
	ab.Config.Paths.LogoutOK = PathLogoutOK
	ab.Config.Paths.OAuth2LoginOK = PathOAuth2OK
	ab.Config.Paths.OAuth2LoginNotOK = PathOAuth2NotOK
	ab.Config.Paths.RecoverOK = PathRecoverOK
	ab.Config.Paths.RegisterOK = PathRegisterOK
	ab.Config.Paths.NotAuthorized = PathNotAuth
	ab.Config.Paths.TwoFactorEmailAuthNotOK = Path2FAEmail

	ab.Config.Modules.BCryptCost = 4
	if cfg.BCryptCost != 0 {
		ab.Config.Modules.BCryptCost = cfg.BCryptCost
	}
	ab.Config.Modules.MailNoGoroutine = true
	ab.Config.Modules.RegisterPreserveFields = append([]string(nil), cfg.PreserveFields...)
	ab.Config.Modules.RecoverLoginAfterRecovery = cfg.RecoverLogin
	ab.Config.Modules.TwoFactorEmailAuthRequired = cfg.TwoFAEmail
	ab.Config.Modules.TOTP2FAIssuer = "verif"
	if cfg.JSON {
		// API clients post the mailed token in a JSON body (documented use of MailRouteMethod)
		ab.Config.Modules.MailRouteMethod = "POST"
	}
	ab.Config.Modules.ResponseOnUnauthed = authboss.MWRespondOnFailure(cfg.OnUnauthed)
	if cfg.LockAfter > 0 {
		ab.Config.Modules.LockAfter = cfg.LockAfter
	}
	if cfg.LockWindow > 0 {
		ab.Config.Modules.LockWindow = cfg.LockWindow
	}
	if cfg.LockDuration > 0 {
		ab.Config.Modules.LockDuration = cfg.LockDuration
	}
	if cfg.ExpireAfter > 0 {
		ab.Config.Modules.ExpireAfter = cfg.ExpireAfter
	}
	if cfg.RecoverTTL > 0 {
		ab.Config.Modules.RecoverTokenDuration = cfg.RecoverTTL
	}
	if cfg.LogoutMethod != "" {
		ab.Config.Modules.LogoutMethod = cfg.LogoutMethod
	}
	ab.Config.Storage.Server = w.Store
	ab.Config.Storage.SessionState = w.Sess
	ab.Config.Storage.CookieState = w.Cook
	ab.Config.Storage.SessionStateWhitelistKeys = append([]string(nil), cfg.Whitelist...)
	ab.Config.Mail.From = "noreply@site.test"

	switch cfg.Localizer {
	case "empty":
		ab.Config.Core.Localizer = catalogue{has: func(string) bool { return false }}
	case "partial":
		ab.Config.Core.Localizer = catalogue{has: func(id string) bool { return len(id)%2 == 0 }}
	}
	logger := defaults.NewLogger(logWriter{w})
	ab.Config.Core.Logger = logger
	ab.Config.Core.ViewRenderer = renderer{w: w, kind: "render"}
	ab.Config.Core.MailRenderer = renderer{w: w, kind: "mailrender"}
	ab.Config.Core.Router = defaults.NewRouter()
	ab.Config.Core.ErrorHandler = errHandler{w: w, inner: defaults.NewErrorHandler(logger), write500: cfg.Err500}
	ab.Config.Core.Responder = defaults.NewResponder(ab.Config.Core.ViewRenderer)
	ab.Config.Core.Redirector = defaults.NewRedirector(ab.Config.Core.ViewRenderer, authboss.FormValueRedirect)
	br := defaults.NewHTTPBodyReader(cfg.JSON, false)
	if cfg.AllowWSPasswords {
		// an application whose password policy allows blanks (pass-phrases): the shipped password rule with
		// AllowWhitespace switched on, for registration and for recovery
		for _, page := range []string{"register", "recover_end"} {
			rs := append([]defaults.Rules(nil), br.Rulesets[page]...)
			for i := range rs {
				if rs[i].FieldName == "password" {
					rs[i].AllowWhitespace = true
				}
			}
			br.Rulesets[page] = rs
		}
	}
	if cfg.AppendedRules {
		// an application that extends the shipped rulesets the way the README shows — by appending: a
		// (generous) length limit on the identifier of the login and recovery forms, a name rule for registration
		br.Rulesets["login"] = append(br.Rulesets["login"], defaults.Rules{FieldName: "email", MaxLength: 2048})
		br.Rulesets["recover_start"] = append(br.Rulesets["recover_start"], defaults.Rules{FieldName: "email", MaxLength: 2048})
		br.Rulesets["register"] = append(br.Rulesets["register"], defaults.Rules{FieldName: "name", MaxLength: 2048})
	}
	if cfg.RegWhitelist != nil {
		br.Whitelist["register"] = append([]string(nil), cfg.RegWhitelist...)
	}
	ab.Config.Core.BodyReader = bodyReader{br}
	ab.Config.Core.Mailer = mailer{w}
	ab.Config.Core.Hasher = hasher{w: w, inner: authboss.NewBCryptHasher(4)}
	if cfg.CustomHasher {
		ab.Config.Core.Hasher = hasher{w: w, inner: saltedSHA{}}
	}

	if len(cfg.Providers) > 0 {
		ab.Config.Modules.OAuth2Providers = map[string]authboss.OAuth2Provider{}
		for _, p := range cfg.Providers {
			ab.Config.Modules.OAuth2Providers[p] = authboss.OAuth2Provider{
				OAuth2Config: &oauth2.Config{
					ClientID: "cid-" + p, ClientSecret: "csecret-" + p,
					Endpoint: oauth2.Endpoint{
						AuthURL:   "https://" + p + ".idp.test/auth",
						TokenURL:  "https://" + p + ".idp.test/token",
						AuthStyle: oauth2.AuthStyleInParams,
					},
				},
				FindUserDetails: w.Prov.findUserDetails,
			}
		}
	}

	registerAppListeners := func() {
		// the application's own event listeners (registered after the modules', as an application that
		// calls Events.After(...) once authboss is initialised does). They do nothing unless HookMode arms
		// them for the next request: "handled" = the listener answers the request itself (writes a page,
		// returns handled=true), "error" = it fails. An armed listener fires on the first After-event of
		// that request that nobody has handled yet.
		for _, ev := range []authboss.Event{authboss.EventRegister, authboss.EventAuth, authboss.EventOAuth2, authboss.EventAuthFail, authboss.EventOAuth2Fail, authboss.EventRecoverEnd,
			authboss.EventPasswordReset, authboss.EventLogout, authboss.EventTwoFactorAdded, authboss.EventTwoFactorRemoved} {
			ev := ev
			ab.Events.After(ev, func(rw http.ResponseWriter, r *http.Request, handled bool) (bool, error) {
				if w.HookMode == "" || handled || w.cur == nil {
					return false, nil
				}
				mode := w.HookMode
				w.HookMode = ""
				w.cur.AppHook = ev.String() + ":" + mode
				if mode == "error" {
					w.cur.FaultsFired++ // an injected failure like any other
					return false, errors.New("application listener failed")
				}
				rw.Header().Set("Content-Type", "text/plain")
				rw.WriteHeader(200)
				rw.Write([]byte("application listener answered " + ev.String()))
				return true, nil
			})
		}
	}
	if cfg.AppHooksFirst {
		// an application that hooks the events BEFORE it initialises the modules: its listeners run first,
		// and once one of them has answered a request the modules' own handlers are called with handled=true
		registerAppListeners()
	}
	if cfg.UseExpire && cfg.ExpireSetupFirst {
		// expire.Setup before the modules are initialised: its hooks run ahead of the modules' own
		if err := expire.Setup(ab); err != nil {
			return nil, err
		}
	}
	setup2FA := func() error {
		for _, k := range cfg.TwoFA {
			switch k {
			case "totp":
				if err := (&totp2fa.TOTP{Authboss: ab}).Setup(); err != nil {
					return err
				}
			case "sms":
				if err := (&sms2fa.SMS{Authboss: ab, Sender: smsSender{w}}).Setup(); err != nil {
					return err
				}
			}
		}
		if len(cfg.TwoFA) > 0 {
			if err := (&twofactor.Recovery{Authboss: ab}).Setup(); err != nil {
				return err
			}
		}
		return nil
	}
	if cfg.TwoFASetupFirst {
		// an application that wires the second-factor modules before it initialises the others
		if err := setup2FA(); err != nil {
			return nil, err
		}
	}
	if err := ab.Init(cfg.Modules...); err != nil {
		return nil, err
	}
	if cfg.UseExpire && !cfg.ExpireSetupFirst {
		if err := expire.Setup(ab); err != nil {
			return nil, err
		}
	}
	if !cfg.TwoFASetupFirst {
		if err := setup2FA(); err != nil {
			return nil, err
		}
	}
	if !cfg.AppHooksFirst {
		registerAppListeners()
	}
	w.Lock = &lock.Lock{Authboss: ab}
	w.Conf = &confirm.Confirm{Authboss: ab}
	w.handler = w.buildStack()
	if !cfg.decoy && len(cfg.Modules)%3 == 0 {
		// a second, differently configured instance in the same process, initialised AFTER the one under
		// observation (a multi-tenant deployment; instances share nothing): its existence changes nothing
		d := cfg
		d.decoy = true
		d.Modules = nil
		for _, m := range cfg.Modules {
			if m != "confirm" && m != "lock" {
				d.Modules = append(d.Modules, m)
			}
		}
		d.Mount, d.JSON, d.TwoFAEmail, d.RecoverLogin = "/other", !cfg.JSON, false, !cfg.RecoverLogin
		dw, err := New(d, "decoy")
		if err != nil {
			return nil, err
		}
		w.decoy = dw
		verifclock.Set(w.now)
	}
	return w, nil
}

func (w *World) buildStack() http.Handler {
	ab := w.AB
	probe := func(route string) http.Handler {
		return http.HandlerFunc(func(rw http.ResponseWriter, r *http.Request) {
			p := Probe{Ran: true, Route: route, Sess: map[string]string{}}
			p.UID, _ = ab.CurrentUserID(r)
			if u, err := ab.CurrentUser(r); err != nil {
				p.UserErr = err.Error()
			} else if u != nil {
				p.UserPID = u.GetPID()
			}
			for _, k := range SessionKeys {
				if v, ok := authboss.GetSession(r, k); ok {
					p.Sess[k] = v
				}
			}
			w.cur.Probe = p
			rw.Header().Set("Content-Type", "text/plain")
			if w.Cfg.StreamBodies {
				// a page that streams its body (a proxied response, a file, a pipe): no explicit status
				// line, io.Copy from a source that is nothing but a Reader
				io.Copy(rw, onlyReader{strings.NewReader("probe:" + route)})
				return
			}
			rw.WriteHeader(200)
			rw.Write([]byte("probe:" + route))
		})
	}
	guard := func(h http.Handler, withLock, withConfirm bool) http.Handler {
		if withConfirm && w.Cfg.Has("confirm") {
			h = confirm.Middleware(ab)(h)
		}
		if withLock && w.Cfg.Has("lock") {
			h = lock.Middleware(ab)(h)
		}
		return h
	}
	fail := authboss.RespondRedirect
	routes := map[string]http.Handler{
		"/public": probe("public"),
		"/cached": http.HandlerFunc(func(rw http.ResponseWriter, r *http.Request) {
			// a page the browser revalidates: 304 Not Modified, no body
			p := Probe{Ran: true, Route: "cached", Sess: map[string]string{}}
			p.UID, _ = ab.CurrentUserID(r)
			for _, k := range SessionKeys {
				if v, ok := authboss.GetSession(r, k); ok {
					p.Sess[k] = v
				}
			}
			w.cur.Probe = p
			rw.Header().Set("ETag", `"v1"`)
			rw.WriteHeader(http.StatusNotModified)
		}),
		"/protected/plain":       authboss.Middleware2(ab, authboss.RequireNone, fail)(guard(probe("plain"), true, true)),
		"/protected/full":        authboss.Middleware2(ab, authboss.RequireFullAuth, fail)(guard(probe("full"), true, true)),
		"/protected/2fa":         authboss.Middleware2(ab, authboss.Require2FA, fail)(guard(probe("2fa"), true, true)),
		"/protected/lockonly":    authboss.Middleware2(ab, authboss.RequireNone, fail)(guard(probe("lockonly"), true, false)),
		"/protected/confirmonly": authboss.Middleware2(ab, authboss.RequireNone, fail)(guard(probe("confirmonly"), false, true)),
		"/protected/bare":        authboss.Middleware2(ab, authboss.RequireNone, fail)(probe("bare")),
		// an application that wraps its whole mux ("r.Use(...)") also guards the pages the guards redirect
		// to, its front page and whatever it serves below the library's mount point
		PathLockNotOK:             authboss.Middleware2(ab, authboss.RequireNone, fail)(guard(probe("notok-lock"), true, true)),
		PathConfirmNotOK:          authboss.Middleware2(ab, authboss.RequireNone, fail)(guard(probe("notok-confirm"), true, true)),
		"/":                       authboss.Middleware2(ab, authboss.RequireNone, fail)(guard(probe("root"), true, true)),
		w.Cfg.Mount + "/app/page": authboss.Middleware2(ab, authboss.RequireNone, fail)(guard(probe("mounted"), true, true)),
		"/app/set": http.HandlerFunc(func(rw http.ResponseWriter, r *http.Request) {
			k, v := r.URL.Query().Get("k"), r.URL.Query().Get("v")
			if strings.HasPrefix(k, "app_") || k == "xhalfauthx" || appShortKeys[k] {
				authboss.PutSession(rw, k, v)
			}
			rw.WriteHeader(200)
			rw.Write([]byte("set"))
		}),
	}
	mount := w.Cfg.Mount
	var abRouter http.Handler = ab.Config.Core.Router
	if mount != "" {
		abRouter = http.StripPrefix(mount, abRouter)
	}
	mux := http.HandlerFunc(func(rw http.ResponseWriter, r *http.Request) {
		if h, ok := routes[r.URL.Path]; ok {
			h.ServeHTTP(rw, r)
			return
		}
		if mount == "" || strings.HasPrefix(r.URL.Path, mount+"/") {
			abRouter.ServeHTTP(rw, r)
			return
		}
		http.NotFound(rw, r)
	})
	var h http.Handler = mux
	// a piece of the application's own middleware in front of every route (locale switcher, one-shot
	// notices): ?_lang=xx stores the visitor's language in the session, ?_drop=key removes an application
	// key — queued in the same response as whatever the route itself does
	site := h
	h = http.HandlerFunc(func(rw http.ResponseWriter, r *http.Request) {
		q := r.URL.Query()
		if v := q.Get("_lang"); v != "" {
			authboss.PutSession(rw, "app_lang", v)
		}
		if k := q.Get("_drop"); strings.HasPrefix(k, "app_") {
			authboss.DelSession(rw, k)
		}
		site.ServeHTTP(rw, r)
	})
	h = authboss.ModuleListMiddleware(ab)(h)
	if w.Cfg.UseExpire {
		h = expire.Middleware(ab)(h)
		if w.Cfg.RememberBeforeExpire && w.Cfg.Has("remember") {
			h = remember.Middleware(ab)(h)
		}
	} else if w.Cfg.Has("remember") {
		h = remember.Middleware(ab)(h)
	}
	if w.Cfg.AccessLog != "" {
		// the application's access log / data injector, first thing after the client state is loaded: it
		// resolves the visitor through the library and carries on whatever the answer is. Its storage
		// reads are the application's own business: not part of the request's fault/interleaving plan.
		inner := h
		h = http.HandlerFunc(func(rw http.ResponseWriter, r *http.Request) {
			w.quiet = true
			if w.Cfg.AccessLog == "load" {
				ab.LoadCurrentUser(&r)
			} else {
				ab.CurrentUser(r)
			}
			w.quiet = false
			inner.ServeHTTP(rw, r)
		})
	}
	return ab.LoadClientStateMiddleware(h)
}

// HasDecoy reports whether a second instance lives next to this one.
func (w *World) HasDecoy() bool { return w.decoy != nil }

// appShortKeys: short session keys an application may well use for its own purposes (a tenant id, a theme
// letter, an auth-scheme hint).
var appShortKeys = map[string]bool{"id": true, "t": true, "auth": true, "action": true, "l": true, "last": true}

// Handler exposes the full application stack.
func (w *World) Handler() http.Handler { return w.handler }

// Now is the virtual instant.
func (w *World) Now() time.Time { return w.now }

// Advance moves the virtual clock forward.
func (w *World) Advance(d time.Duration) {
	w.now = w.now.Add(d)
	verifclock.Set(w.now)
}

// SetNow sets the virtual instant (used when restoring snapshots).
func (w *World) SetNow(t time.Time) {
	w.now = t
	verifclock.Set(t)
}

// P prefixes an authboss route with the mount path.
func (w *World) P(route string) string { return w.Cfg.Mount + route }

func (w *World) backend(op, arg string, write bool) error {
	if w.quiet {
		return nil
	}
	w.seq++
	c := Call{Seq: w.seq, Op: op, Arg: arg, Write: write}
	var err error
	if w.cur != nil && faultable(op) {
		if f, ok := w.Yield[w.fidx]; ok {
			// a scheduling point: another request runs to completion before this backend call
			delete(w.Yield, w.fidx)
			cur, fidx, faults, fops, y := w.cur, w.fidx, w.Faults, w.FaultOps, w.Yield
			w.cur, w.Faults, w.FaultOps, w.Yield = nil, nil, nil, nil
			w.YieldedAt = append(w.YieldedAt, op)
			f()
			w.cur, w.fidx, w.Faults, w.FaultOps, w.Yield = cur, fidx, faults, fops, y
		}
	}
	if w.cur != nil {
		if faultable(op) {
			if e, ok := w.Faults[w.fidx]; ok {
				err = e
				c.Result = "fault:" + e.Error()
				w.cur.FaultsFired++
			} else if e, ok := w.FaultOps[op]; ok {
				err = e
				delete(w.FaultOps, op)
				c.Result = "fault:" + e.Error()
				w.cur.FaultsFired++
			}
			w.fidx++
		}
		w.cur.Calls = append(w.cur.Calls, c)
	}
	return err
}

func faultable(op string) bool {
	switch op {
	case "compare":
		return false
	}
	return true
}

func (w *World) noteResult(res string) {
	if w.cur != nil && len(w.cur.Calls) > 0 {
		w.cur.Calls[len(w.cur.Calls)-1].Result = res
	}
}

func (w *World) noteArbitrary(m map[string]string) {
	if w.cur != nil {
		c := map[string]string{}
		for k, v := range m {
			c[k] = v
		}
		w.cur.Arbitrary = append(w.cur.Arbitrary, c)
	}
}

func (w *World) noteSessionWrite(evs []Event) {
	w.seq++
	if w.cur != nil {
		w.cur.SessWrites = append(w.cur.SessWrites, evs)
		w.cur.SessWriteAt = append(w.cur.SessWriteAt, w.seq)
	}
}

func (w *World) noteCookieWrite(evs []Event) {
	w.seq++
	if w.cur != nil {
		w.cur.CookWrites = append(w.cur.CookWrites, evs)
		w.cur.CookWriteAt = append(w.cur.CookWriteAt, w.seq)
	}
}

// bodyReader is the shipped defaults.HTTPBodyReader; the only addition is that the otp module's
// login page ("otplogin"), which the shipped reader does not know, is read like the "login" page
// (same fields) — without this the OTP login route cannot be reached with the defaults at all.
type bodyReader struct{ inner *defaults.HTTPBodyReader }

func (b bodyReader) Read(page string, r *http.Request) (authboss.Validator, error) {
	if page == "otplogin" {
		page = "login"
	}
	return b.inner.Read(page, r)
}

type logWriter struct{ w *World }

func (l logWriter) Write(p []byte) (int, error) {
	s := strings.TrimRight(string(p), "\n")
	l.w.Logs = append(l.w.Logs, s)
	if l.w.cur != nil {
		l.w.cur.Logs = append(l.w.cur.Logs, s)
	}
	return len(p), nil
}

type renderer struct {
	w     *World
	kind  string
	inner defaults.JSONRenderer
}

func (r renderer) Load(names ...string) error { return nil }

func (r renderer) Render(ctx context.Context, page string, data authboss.HTMLData) ([]byte, string, error) {
	if err := r.w.backend(r.kind, page, false); err != nil {
		return nil, "", err
	}
	if r.kind == "mailrender" && strings.HasSuffix(page, "txt") {
		// the text part of a mail is rendered after its HTML part: a template that fails only there
		// (fault plan "mailrender-txt") fails with the HTML body — link included — already in hand
		if e, ok := r.w.FaultOps["mailrender-txt"]; ok && r.w.cur != nil {
			delete(r.w.FaultOps, "mailrender-txt")
			r.w.cur.FaultsFired++
			r.w.cur.Calls = append(r.w.cur.Calls, Call{Op: "mailrender-txt", Arg: page, Result: "fault:" + e.Error()})
			return nil, "", e
		}
	}
	return r.inner.Render(ctx, page, data)
}

type hasher struct {
	w     *World
	inner authboss.Hasher
}

func (h hasher) CompareHashAndPassword(hash, pw string) error {
	h.w.backend("compare", "", false)
	return h.inner.CompareHashAndPassword(hash, pw)
}

func (h hasher) GenerateHash(pw string) (string, error) {
	if err := h.w.backend("hash", "", false); err != nil {
		return "", err
	}
	return h.inner.GenerateHash(pw)
}

type mailer struct{ w *World }

func (m mailer) Send(ctx context.Context, e authboss.Email) error {
	if err := m.w.backend("mail", strings.Join(e.To, ","), true); err != nil {
		return err
	}
	m.w.seq++
	ml := Mail{Seq: m.w.seq, Email: e}
	m.w.Mails = append(m.w.Mails, ml)
	if m.w.cur != nil {
		m.w.cur.Mails = append(m.w.cur.Mails, ml)
	}
	return nil
}

type smsSender struct{ w *World }

func (s smsSender) Send(ctx context.Context, number, text string) error {
	if err := s.w.backend("sms", number, true); err != nil {
		return err
	}
	s.w.seq++
	m := SMSMsg{Seq: s.w.seq, Number: number, Text: text}
	s.w.SMSs = append(s.w.SMSs, m)
	if s.w.cur != nil {
		s.w.cur.SMS = append(s.w.cur.SMS, m)
	}
	return nil
}

// errHandler wraps the shipped default error handler only to observe the returned error;
// with write500 it is the "error handler that writes a 500" an application would install.
type errHandler struct {
	w        *World
	inner    defaults.ErrorHandler
	write500 bool
}

func (e errHandler) Wrap(h func(http.ResponseWriter, *http.Request) error) http.Handler {
	observed := func(rw http.ResponseWriter, r *http.Request) error {
		if e.w.cur != nil {
			e.w.cur.HandlerRan = true
			e.w.cur.HandlerStart = e.w.seq
		}
		err := h(rw, r)
		if err != nil && e.w.cur != nil {
			e.w.cur.HandlerErr = fmt.Sprintf("%v", err)
		}
		return err
	}
	if !e.write500 {
		return e.inner.Wrap(observed)
	}
	return http.HandlerFunc(func(rw http.ResponseWriter, r *http.Request) {
		if err := observed(rw, r); err != nil {
			e.w.AB.Config.Core.Logger.Error(fmt.Sprintf("request error from (%s) %s: %+v", r.RemoteAddr, r.URL.Path, err))
			rw.WriteHeader(http.StatusInternalServerError)
			rw.Write([]byte("internal error"))
		}
	})
}

// Do runs one request of browser b through the full stack and records everything observable.
func (w *World) Do(b *Browser, rq Req) *Rec { return w.DoOn(w.handler, b, rq) }

// ProbeHandler is a downstream application handler that records what it can see.
func (w *World) ProbeHandler(route string) http.Handler {
	ab := w.AB
	return http.HandlerFunc(func(rw http.ResponseWriter, r *http.Request) {
		p := Probe{Ran: true, Route: route, Sess: map[string]string{}}
		p.UID, _ = ab.CurrentUserID(r)
		if u, err := ab.CurrentUser(r); err != nil {
			p.UserErr = err.Error()
		} else if u != nil {
			p.UserPID = u.GetPID()
		}
		for _, k := range SessionKeys {
			if v, ok := authboss.GetSession(r, k); ok {
				p.Sess[k] = v
			}
		}
		w.cur.Probe = p
		rw.Header().Set("Content-Type", "text/plain")
		rw.WriteHeader(200)
		rw.Write([]byte("probe:" + route))
	})
}

// DoOn runs one request through an arbitrary handler stack with the same recording as Do.
func (w *World) DoOn(h http.Handler, b *Browser, rq Req) *Rec {
	rec := &Rec{Kind: "http", Browser: b.ID, Method: rq.Method, Target: rq.Path, Now: w.now}
	var body string
	ct := rq.CT
	switch {
	case rq.Raw != nil:
		body = *rq.Raw
	case w.Cfg.JSON && rq.Method != "GET":
		body = jsonBody(rq)
	case rq.Method != "GET":
		body = formBody(rq)
	}
	if ct == "" && rq.Method != "GET" {
		if w.Cfg.JSON {
			ct = "application/json"
		} else {
			ct = "application/x-www-form-urlencoded"
		}
	}
	if ct == "" && w.Cfg.JSON {
		ct = "application/json" // API clients send it on GETs too (decides redirect style)
	}
	if rq.NoCT {
		ct = ""
	}
	rec.Body, rec.CT = body, ct
	req, err := safeNewRequest(rq.Method, "https://site.test"+rq.Path, body)
	if err != nil {
		rec.Status = -1
		rec.Panic = ""
		rec.HandlerErr = "harness: unbuildable request: " + err.Error()
		rec.Before = w.Store.Snapshot()
		rec.After = rec.Before
		rec.SessIn = w.Sess.Of(b)
		rec.SessOut = rec.SessIn
		rec.CookiesIn = copyMap(b.Jar)
		rec.CookiesOut = rec.CookiesIn
		return rec
	}
	if ct != "" {
		req.Header.Set("Content-Type", ct)
	}
	if ch := b.cookieHeader(); ch != "" {
		req.Header.Set("Cookie", ch)
	}
	for k, v := range rq.Hdr {
		req.Header.Set(k, v)
	}
	req.RemoteAddr = fmt.Sprintf("10.0.0.%d:4000", b.ID+1)
	ctx := context.WithValue(req.Context(), oauth2.HTTPClient, &http.Client{Transport: w.Prov})
	req = req.WithContext(ctx)

	rec.CookiesIn = copyMap(b.Jar)
	rec.SessIn = w.Sess.Of(b)
	rec.Before = w.Store.Snapshot()
	w.cur, w.fidx = rec, 0
	decoySeq := 0
	if w.decoy != nil {
		decoySeq = w.decoy.seq
	}
	rr := httptest.NewRecorder()
	func() {
		defer func() {
			if p := recover(); p != nil {
				rec.Panic = fmt.Sprintf("%v", p)
				rec.PanicStack = string(debug.Stack())
			}
		}()
		h.ServeHTTP(&noteWriter{ResponseWriter: rr, wrote: &rec.Wrote}, req)
	}()
	w.cur = nil
	w.Faults = nil
	w.FaultOps = nil
	w.Yield = nil
	w.HookMode = ""
	rec.After = w.Store.Snapshot()
	if w.decoy != nil {
		rec.DecoyCalls = w.decoy.seq - decoySeq
	}
	rec.Status = rr.Code
	rec.Header = rr.Header().Clone()
	rec.RespBody = rr.Body.String()
	if strings.HasPrefix(rec.Header.Get("Content-Type"), "application/json") {
		var m map[string]interface{}
		if json.Unmarshal(rr.Body.Bytes(), &m) == nil {
			rec.JSON = m
		}
	}
	rec.Location = rec.Header.Get("Location")
	if rec.Location == "" && rec.JSON != nil {
		if l, ok := rec.JSON["location"].(string); ok {
			rec.Location = l
		}
	}
	if rec.Panic == "" {
		b.absorb(rec.Header)
	}
	rec.CookiesOut = copyMap(b.Jar)
	rec.SessOut = w.Sess.Of(b)
	return rec
}

func safeNewRequest(method, target, body string) (req *http.Request, err error) {
	defer func() {
		if p := recover(); p != nil {
			err = fmt.Errorf("%v", p)
		}
	}()
	u, perr := url.Parse(target)
	if perr != nil {
		return nil, perr
	}
	req = httptest.NewRequest(method, "https://site.test/", bytes.NewBufferString(body))
	req.URL = u
	req.RequestURI = u.RequestURI()
	req.Host = "site.test"
	return req, nil
}

func formBody(rq Req) string {
	if rq.Pairs != nil {
		var parts []string
		for _, kv := range rq.Pairs {
			parts = append(parts, url.QueryEscape(kv[0])+"="+url.QueryEscape(kv[1]))
		}
		return strings.Join(parts, "&")
	}
	v := url.Values{}
	for k, val := range rq.Form {
		v.Set(k, val)
	}
	return v.Encode()
}

func jsonBody(rq Req) string {
	if rq.Pairs != nil {
		var parts []string
		for _, kv := range rq.Pairs {
			k, _ := json.Marshal(kv[0])
			v, _ := json.Marshal(kv[1])
			parts = append(parts, string(k)+":"+string(v))
		}
		return "{" + strings.Join(parts, ",") + "}"
	}
	m := rq.Form
	if m == nil {
		m = map[string]string{}
	}
	b, _ := json.Marshal(m)
	return string(b)
}

func copyMap(m map[string]string) map[string]string {
	c := make(map[string]string, len(m))
	for k, v := range m {
		c[k] = v
	}
	return c
}

// Admin runs a programmatic operation (UpdatePassword, Lock, Unlock, StartConfirmation) with the
// same recording as a request.
func (w *World) Admin(name string, f func(ctx context.Context) error) *Rec {
	rec := &Rec{Kind: "admin", Browser: -1, Method: "ADMIN", Target: name, Now: w.now}
	rec.Before = w.Store.Snapshot()
	w.cur, w.fidx = rec, 0
	func() {
		defer func() {
			if p := recover(); p != nil {
				rec.Panic = fmt.Sprintf("%v", p)
				rec.PanicStack = string(debug.Stack())
			}
		}()
		if err := f(context.Background()); err != nil {
			rec.AdminErr = err.Error()
		}
	}()
	w.cur = nil
	w.Faults = nil
	w.Yield = nil
	rec.After = w.Store.Snapshot()
	return rec
}

func (w *World) AdminLock(pid string) *Rec {
	return w.Admin("Lock("+pid+")", func(ctx context.Context) error { return w.Lock.Lock(ctx, pid) })
}

func (w *World) AdminUnlock(pid string) *Rec {
	return w.Admin("Unlock("+pid+")", func(ctx context.Context) error { return w.Lock.Unlock(ctx, pid) })
}

func (w *World) AdminUpdatePassword(pid, pw string) *Rec {
	return w.Admin("UpdatePassword("+pid+")", func(ctx context.Context) error {
		u, err := w.Store.Load(ctx, pid)
		if err != nil {
			return err
		}
		return w.AB.UpdatePassword(ctx, u.(authboss.AuthableUser), pw)
	})
}

func (w *World) AdminStartConfirmation(pid string) *Rec {
	return w.Admin("StartConfirmation("+pid+")", func(ctx context.Context) error {
		u, err := w.Store.Load(ctx, pid)
		if err != nil {
			return err
		}
		return w.Conf.StartConfirmation(ctx, u.(authboss.ConfirmableUser), true)
	})
}

// State is a restorable snapshot of everything mutable in the world (browsers are the caller's).
type State struct {
	store *Snapshot
	sess  map[string]map[string]string
	sessN int
	mails int
	smss  int
	logs  int
	now   time.Time
	prov  *Provider
	seq   int
}

func (w *World) SaveState() *State {
	return &State{store: w.Store.Snapshot(), sess: w.Sess.snapshot(), sessN: w.Sess.n, mails: len(w.Mails),
		smss: len(w.SMSs), logs: len(w.Logs), now: w.now, prov: w.Prov.clone(), seq: w.seq}
}

func (w *World) LoadState(s *State) {
	w.Store.Restore(s.store)
	w.Sess.restore(s.sess, s.sessN)
	w.Mails = w.Mails[:s.mails]
	w.SMSs = w.SMSs[:s.smss]
	w.Logs = w.Logs[:s.logs]
	w.SetNow(s.now)
	w.Prov.restore(s.prov)
	w.seq = s.seq
}

// SortedKeys is a small helper used all over the monitors.
func SortedKeys(m map[string]string) []string {
	ks := make([]string, 0, len(m))
	for k := range m {
		ks = append(ks, k)
	}
	sort.Strings(ks)
	return ks
}

// catalogue is an application's translation catalogue: a translation for the keys it has, "" for the
// others (which makes the library fall back to the key's default text).
type catalogue struct{ has func(id string) bool }

func (c catalogue) Localizef(ctx context.Context, key authboss.LocalizationKey, args ...any) string {
	if !c.has(key.ID) {
		return ""
	}
	return "«" + fmt.Sprintf(key.Default, args...) + "»"
}

// ResetClock points the process-wide virtual clock back at w's own instant (another World created in
// the meantime has set it to its own).
func ResetClock(w *World) { verifclock.Set(w.now) }

// saltedSHA is an application-supplied authboss.Hasher (the interface exists so that deployments can
// plug in argon2, scrypt or a legacy scheme): salted SHA-256, its own error values.
type saltedSHA struct{}

var errSSHAMismatch = errors.New("ssha: password does not match")

func (saltedSHA) GenerateHash(pw string) (string, error) {
	salt := sha256.Sum256([]byte("salt-of:" + pw))
	sum := sha256.Sum256(append(salt[:8], pw...))
	return fmt.Sprintf("ssha$%x$%x", salt[:8], sum), nil
}

func (saltedSHA) CompareHashAndPassword(hash, pw string) error {
	parts := strings.Split(hash, "$")
	if len(parts) != 3 || parts[0] != "ssha" {
		return errors.New("ssha: malformed hash")
	}
	salt, err := hex.DecodeString(parts[1])
	if err != nil {
		return errors.New("ssha: malformed salt")
	}
	sum := sha256.Sum256(append(salt, pw...))
	if fmt.Sprintf("%x", sum) != parts[2] {
		return errSSHAMismatch
	}
	return nil
}

// VerifyPw reports whether hash verifies pw under this world's configured hasher (no fault plan involved).
func (w *World) VerifyPw(hash, pw string) bool {
	if w.Cfg.CustomHasher {
		return saltedSHA{}.CompareHashAndPassword(hash, pw) == nil
	}
	return authboss.NewBCryptHasher(4).CompareHashAndPassword(hash, pw) == nil
}

// HashPw hashes a password the way this world's configured hasher does (seeding only).
func (w *World) HashPw(pw string) string {
	if w.Cfg.CustomHasher {
		h, _ := saltedSHA{}.GenerateHash(pw)
		return h
	}
	h, err := authboss.NewBCryptHasher(4).GenerateHash(pw)
	if err != nil {
		panic(err)
	}
	return h
}

// noteWriter sits between the recorder and the stack under observation and notes whether anything
// was released to the client at all (a recorder alone cannot tell an explicit 200 from silence).
type noteWriter struct {
	http.ResponseWriter
	wrote *bool
}

func (n *noteWriter) WriteHeader(code int) { *n.wrote = true; n.ResponseWriter.WriteHeader(code) }
func (n *noteWriter) Write(b []byte) (int, error) {
	*n.wrote = true
	return n.ResponseWriter.Write(b)
}

// ReadFrom: like net/http's own response writer, the base writer can be streamed into.
func (n *noteWriter) ReadFrom(r io.Reader) (int64, error) {
	*n.wrote = true
	b, err := io.ReadAll(r)
	k, _ := n.ResponseWriter.Write(b)
	return int64(k), err
}

// onlyReader hides every other method of the reader it wraps (no WriteTo: io.Copy must go through the writer).
type onlyReader struct{ r io.Reader }

func (o onlyReader) Read(p []byte) (int, error) { return o.r.Read(p) }
