package world

import (
	"fmt"
	"net/http"
	"sort"
	"strings"
	"sync"

	"github.com/volatiletech/authboss/v3"
)

// Event mirrors authboss.ClientStateEvent in a printable form.
type Event struct {
	Kind  string // put | del | delall
	Key   string
	Value string
}

func (e Event) String() string {
	switch e.Kind {
	case "put":
		return fmt.Sprintf("put(%s=%q)", e.Key, e.Value)
	case "del":
		return fmt.Sprintf("del(%s)", e.Key)
	}
	return fmt.Sprintf("delall(keep=%s)", e.Key)
}

func convEvents(evs []authboss.ClientStateEvent) []Event {
	out := make([]Event, len(evs))
	for i, e := range evs {
		k := "put"
		switch e.Kind {
		case authboss.ClientStateEventDel:
			k = "del"
		case authboss.ClientStateEventDelAll:
			k = "delall"
		}
		out[i] = Event{Kind: k, Key: e.Key, Value: e.Value}
	}
	return out
}

// SessionStore is a server-side session map keyed by the `sid` cookie.
type SessionStore struct {
	mu   sync.Mutex
	data map[string]map[string]string
	n    int
	w    *World
	salt string
	Hook func(op string)
	// NilWhenAbsent makes ReadState answer (nil, nil) for a request that names no stored session —
	// the ClientStateReadWriter contract allows a nil state, and session libraries that keep nothing
	// for anonymous visitors behave like that.
	NilWhenAbsent bool
}

// NewStandaloneSessionStore returns a session store usable concurrently without a World.
func NewStandaloneSessionStore(salt string) *SessionStore {
	return &SessionStore{data: map[string]map[string]string{}, salt: salt}
}

func (s *SessionStore) sidSalt() string {
	if s.w != nil {
		return s.w.sidSalt
	}
	return s.salt
}

const SidCookie = "sid"

type sessState struct {
	sid  string
	vals map[string]string
}

func (s sessState) Get(k string) (string, bool) { v, ok := s.vals[k]; return v, ok }

func newSessionStore(w *World) *SessionStore {
	return &SessionStore{data: map[string]map[string]string{}, w: w}
}

// ReadState returns an immutable snapshot of the session named by the sid cookie.
func (s *SessionStore) ReadState(r *http.Request) (authboss.ClientState, error) {
	if s.Hook != nil {
		s.Hook("SessionRead")
	}
	st := sessState{vals: map[string]string{}}
	if c, err := r.Cookie(SidCookie); err == nil {
		s.mu.Lock()
		if m, ok := s.data[c.Value]; ok {
			st.sid = c.Value
			for k, v := range m {
				st.vals[k] = v
			}
		}
		s.mu.Unlock()
	}
	if s.NilWhenAbsent && st.sid == "" {
		return nil, nil
	}
	return st, nil
}

// WriteState applies the events in order; DelAll keeps exactly the comma-separated whitelist.
func (s *SessionStore) WriteState(w http.ResponseWriter, state authboss.ClientState, evs []authboss.ClientStateEvent) error {
	if s.Hook != nil {
		s.Hook("SessionWrite")
	}
	if s.w != nil {
		s.w.noteSessionWrite(convEvents(evs))
	}
	st, _ := state.(sessState)
	s.mu.Lock()
	defer s.mu.Unlock()
	m, ok := s.data[st.sid]
	if !ok || st.sid == "" {
		s.n++
		st.sid = fmt.Sprintf("S%d-%s", s.n, s.sidSalt())
		m = map[string]string{}
		s.data[st.sid] = m
		http.SetCookie(w, &http.Cookie{Name: SidCookie, Value: st.sid, Path: "/", HttpOnly: true})
	}
	for _, e := range evs {
		switch e.Kind {
		case authboss.ClientStateEventPut:
			m[e.Key] = e.Value
		case authboss.ClientStateEventDel:
			delete(m, e.Key)
		case authboss.ClientStateEventDelAll:
			keep := map[string]bool{}
			if e.Key != "" {
				for _, k := range strings.Split(e.Key, ",") {
					keep[k] = true
				}
			}
			for k := range m {
				if !keep[k] {
					delete(m, k)
				}
			}
		}
	}
	return nil
}

// BySid returns a copy of the session stored under sid.
func (s *SessionStore) BySid(sid string) map[string]string {
	out := map[string]string{}
	s.mu.Lock()
	defer s.mu.Unlock()
	for k, v := range s.data[sid] {
		out[k] = v
	}
	return out
}

// Of returns a copy of the server-side session a browser's sid points to (empty if none).
func (s *SessionStore) Of(b *Browser) map[string]string {
	out := map[string]string{}
	s.mu.Lock()
	defer s.mu.Unlock()
	if m, ok := s.data[b.Jar[SidCookie]]; ok {
		for k, v := range m {
			out[k] = v
		}
	}
	return out
}

// Set writes a value directly into a browser's session (harness-side, creates the session).
func (s *SessionStore) Set(b *Browser, k, v string) {
	s.mu.Lock()
	defer s.mu.Unlock()
	sid := b.Jar[SidCookie]
	m, ok := s.data[sid]
	if !ok || sid == "" {
		s.n++
		sid = fmt.Sprintf("S%d-%s", s.n, s.sidSalt())
		m = map[string]string{}
		s.data[sid] = m
		b.Jar[SidCookie] = sid
	}
	m[k] = v
}

func (s *SessionStore) snapshot() map[string]map[string]string {
	s.mu.Lock()
	defer s.mu.Unlock()
	out := map[string]map[string]string{}
	for sid, m := range s.data {
		c := map[string]string{}
		for k, v := range m {
			c[k] = v
		}
		out[sid] = c
	}
	return out
}

func (s *SessionStore) restore(d map[string]map[string]string, n int) {
	s.mu.Lock()
	defer s.mu.Unlock()
	s.data = map[string]map[string]string{}
	for sid, m := range d {
		c := map[string]string{}
		for k, v := range m {
			c[k] = v
		}
		s.data[sid] = c
	}
	s.n = n
}

// CookieStore keeps state in real cookies.
type CookieStore struct{ w *World }

type cookieState map[string]string

func (c cookieState) Get(k string) (string, bool) { v, ok := c[k]; return v, ok }

func (c *CookieStore) ReadState(r *http.Request) (authboss.ClientState, error) {
	st := cookieState{}
	for _, ck := range r.Cookies() {
		if ck.Name != SidCookie {
			st[ck.Name] = ck.Value
		}
	}
	return st, nil
}

func (c *CookieStore) WriteState(w http.ResponseWriter, state authboss.ClientState, evs []authboss.ClientStateEvent) error {
	if c.w != nil {
		c.w.noteCookieWrite(convEvents(evs))
	}
	for _, e := range evs {
		switch e.Kind {
		case authboss.ClientStateEventPut:
			http.SetCookie(w, &http.Cookie{Name: e.Key, Value: e.Value, Path: "/", HttpOnly: true, MaxAge: 30 * 24 * 3600})
		case authboss.ClientStateEventDel:
			http.SetCookie(w, &http.Cookie{Name: e.Key, Value: "", Path: "/", HttpOnly: true, MaxAge: -1})
		}
	}
	return nil
}

// Browser is a cookie jar.
type Browser struct {
	ID  int
	Jar map[string]string
}

func NewBrowser(id int) *Browser { return &Browser{ID: id, Jar: map[string]string{}} }

func (b *Browser) Clone() *Browser {
	c := NewBrowser(b.ID)
	for k, v := range b.Jar {
		c.Jar[k] = v
	}
	return c
}

// cookieHeader renders the jar as a request Cookie header (sorted, raw values).
func (b *Browser) cookieHeader() string {
	var ks []string
	for k := range b.Jar {
		ks = append(ks, k)
	}
	sort.Strings(ks)
	var parts []string
	for _, k := range ks {
		parts = append(parts, k+"="+b.Jar[k])
	}
	return strings.Join(parts, "; ")
}

// absorb applies the Set-Cookie headers of a response like a browser would.
func (b *Browser) absorb(h http.Header) {
	resp := http.Response{Header: h}
	for _, c := range resp.Cookies() {
		if c.MaxAge < 0 {
			delete(b.Jar, c.Name)
			continue
		}
		b.Jar[c.Name] = c.Value
	}
}
