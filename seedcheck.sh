#!/bin/bash
# seedcheck.sh <worktree> <seed-id> <check ids...>
# Confirms a sub-agent's change independently (applies to a clean copy of /repo HEAD: builds, existing suite passes,
# demo fails with / passes without), runs the given checks against it, and files it under /verif/seeded/<seed-id>/.
WT="$1"; SID="$2"; shift 2
export GOFLAGS=-mod=mod GOPROXY=off GOSUMDB=off GOTOOLCHAIN=local
D=/var/tmp/verif-mut/$SID
rm -rf "$D"; mkdir -p "$D/clean" "$D/mut"
git -C /repo archive HEAD | tar -x -C "$D/clean"
git -C /repo archive HEAD | tar -x -C "$D/mut"
[ -s "$WT/_out/patch.diff" ] || { echo "[$SID] no patch.diff"; exit 3; }
(cd "$D/mut" && git apply --whitespace=nowarn "$WT/_out/patch.diff" 2>&1 || patch -p1 -s < "$WT/_out/patch.diff") || { echo "[$SID] PATCH DOES NOT APPLY"; exit 3; }
# the demo file: where the agent left it in its worktree
DEMO=$(cd "$WT" && find . -name 'zz_demo*' -not -path './_out/*' | head -1)
build=$(cd "$D/mut" && go build ./... 2>&1 | head -3)
suite=$(cd "$D/mut" && go test -vet=off -count=1 ./... 2>&1 | grep -v "^ok\|no test files" | head -5)
echo "[$SID] build: ${build:-ok}   existing suite with change: ${suite:-pass}"
demo_with="n/a"; demo_without="n/a"
if [ -n "$DEMO" ]; then
  pkgdir=$(dirname "$DEMO")
  mkdir -p "$D/mut/$pkgdir" "$D/clean/$pkgdir"
  cp "$WT/$DEMO" "$D/mut/$DEMO"; cp "$WT/$DEMO" "$D/clean/$DEMO"
  (cd "$D/mut/$pkgdir" && go test -vet=off -count=1 . >/dev/null 2>&1) && demo_with=PASS || demo_with=FAIL
  (cd "$D/clean/$pkgdir" && go test -vet=off -count=1 . >/dev/null 2>&1) && demo_without=PASS || demo_without=FAIL
  rm -f "$D/mut/$DEMO"
fi
echo "[$SID] demo ($DEMO): with change=$demo_with  without=$demo_without"
caught=""
results=""
for id in "$@"; do
  out=$(VERIF_REPO="$D/mut" VERIF_OUTDIR="$D/out" /verif/run.sh $id ${TIER:-quick} 2>&1); rc=$?
  sigs=$(echo "$out" | grep -a "signature:" | sed 's/.*signature: //' | head -4 | tr '\n' ';')
  echo "[$SID] $id rc=$rc $(echo "$out" | grep -a "^$id " | sed 's/.*: //') $sigs"
  results="$results{\"check\":\"$id\",\"rc\":$rc,\"signatures\":\"$(echo $sigs | sed 's/"/\\"/g; s/\\/\\\\/g' | cut -c1-600)\"},"
  [ $rc -eq 1 ] && caught="$caught $id"
done
mkdir -p /verif/seeded/$SID
cp "$WT/_out/patch.diff" /verif/seeded/$SID/patch.diff
[ -n "$DEMO" ] && cp "$WT/$DEMO" /verif/seeded/$SID/$(basename "$DEMO")
[ -f "$WT/_out/meta.md" ] && cp "$WT/_out/meta.md" /verif/seeded/$SID/agent_meta.md
cat > /verif/seeded/$SID/result.json <<J
{"seed_id":"$SID","repo_head":"$(git -C /repo rev-parse --short HEAD)","builds":"${build:-ok}","existing_suite_with_change":"$(echo ${suite:-pass} | cut -c1-200 | sed 's/"/\\"/g')",
 "demo_file":"$DEMO","demo_with_change":"$demo_with","demo_without_change":"$demo_without","tier":"${TIER:-quick}",
 "checks_run":[${results%,}],"caught_by":"$(echo $caught)"}
J
rm -rf "$D"
