#!/bin/bash
# mut.sh <name> <patchfile|-> <check ids...> — apply a patch to a scratch copy of /repo and run checks against it.
# With "-" the patch is read from stdin. Prints which checks fire. Nothing in /repo or /verif/evidence is touched.
NAME="$1"; PATCH="$2"; shift 2
D=/var/tmp/verif-mut/$NAME
rm -rf "$D"; mkdir -p "$D"
rsync -a --exclude .git /repo/ "$D/repo/"
if [ "$PATCH" = "-" ]; then (cd "$D/repo" && patch -p1 -s) || { echo "PATCH FAILED"; exit 3; }
else (cd "$D/repo" && patch -p1 -s < "$PATCH") || { echo "PATCH FAILED"; exit 3; }; fi
export GOFLAGS=-mod=mod GOPROXY=off GOSUMDB=off GOTOOLCHAIN=local
if [ -z "${SKIP_TESTS:-}" ]; then
  (cd "$D/repo" && go build ./... && go test -vet=off -count=1 ./... 2>&1 | grep -v "^ok\|no test files" | head -5)
fi
for id in "$@"; do
  out=$(VERIF_REPO="$D/repo" VERIF_OUTDIR="$D/out" /verif/run.sh $id ${TIER:-quick} 2>&1); rc=$?
  echo "[$NAME] $id rc=$rc $(echo "$out" | grep -a "^$id " | sed 's/.*: //')"
  echo "$out" | grep -a "signature:\|INCONCLUSIVE" | sort | uniq -c | head -5
done
rm -rf "$D"
