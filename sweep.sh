#!/bin/bash
# sweep.sh <tier> <seed>... — run every check at the given seeds; one line per (check, seed)
cd "$(dirname "$0")"
TIER="$1"; shift
for seed in "$@"; do
  for id in C01 C02 C03 C04 C05 C06 C07 C08 C09 C10 C11 C12 C13 C14 C15 C16 C17 C18 C19 C20; do
    out=$(VERIF_SEED=$seed ./run.sh $id $TIER 2>&1); rc=$?
    echo "seed=$seed $id rc=$rc $(echo "$out" | grep -a "^$id $TIER" | sed 's/.*: //')"
    if [ $rc -ne 0 ]; then echo "$out" | grep -a "signature:\|INCONCLUSIVE" | sort | uniq -c | head -6; fi
  done
done
